#!/bin/sh
# MANIFEST.setup_cmd: check the tools are present and the driver byte-compiles.  Nothing is fetched.
set -e
cd "$(dirname "$0")"
for t in cbmc goto-cc goto-instrument cc python3 ar; do
    command -v $t >/dev/null || { echo "missing tool: $t"; exit 1; }
done
cbmc --version | grep -q '^6\.' || { echo "unexpected cbmc version"; exit 1; }
python3 -m py_compile lib/vdriver.py props/*.py check
mkdir -p build evidence replay
echo setup ok

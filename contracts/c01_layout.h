/*
 * DFCC function contract for _vnacal_layout (C01 link 1): the four
 * sub-matrix regions plus the outside leakage terms partition
 * [0, vl_error_terms), and every region has the number of terms the layout
 * header documents for its dimensions (full rows x columns for the 16-term
 * types, the diagonal for the 8/10-term types, per-column systems for
 * UE14/E12).  The documented dimensions are taken from the header's own
 * VL_*_ROWS / VL_*_COLUMNS macros, i.e. from what apply and solve use.
 */
#ifndef C01_LAYOUT_H
#define C01_LAYOUT_H
#include "archdep.h"
#include <vnacal_internal.h>

#ifndef LAYOUT_DIM_MAX
#define LAYOUT_DIM_MAX 8
#endif
#define DIAG(r, c)	((r) < (c) ? (r) : (c))
#define IS_T(t)		((t) == VNACAL_T8 || (t) == VNACAL_TE10 || (t) == VNACAL_T16)
#define IS_U(t)		((t) == VNACAL_U8 || (t) == VNACAL_UE10 || (t) == VNACAL_U16)
#define IS_16(t)	((t) == VNACAL_T16 || (t) == VNACAL_U16)
#define SIZE(t, r, c)	(IS_16(t) ? (r) * (c) : DIAG(r, c))
#define HAS_EL(t)	((t) == VNACAL_TE10 || (t) == VNACAL_UE10)
#define IS_UE14(t)	((t) == VNACAL_UE14 || (t) == _VNACAL_E12_UE14)

void _vnacal_layout(vnacal_layout_t *vlp, vnacal_type_t type, int m_rows, int m_columns)
__CPROVER_requires(__CPROVER_is_fresh(vlp, sizeof(*vlp)))
__CPROVER_requires(m_rows >= 1 && m_rows <= LAYOUT_DIM_MAX && m_columns >= 1 && m_columns <= LAYOUT_DIM_MAX)
__CPROVER_requires(IS_T(type) || IS_U(type) || IS_UE14(type) || type == VNACAL_E12)
__CPROVER_assigns(__CPROVER_object_whole(vlp))
__CPROVER_ensures(vlp->vl_type == type && vlp->vl_m_rows == m_rows && vlp->vl_m_columns == m_columns)
/* T types: [Ts | Ti | Tx | Tm | El] */
__CPROVER_ensures(IS_T(type) ==>
	VL_TS_OFFSET(vlp) == 0 &&
	VL_TS_TERMS(vlp) == SIZE(type, VL_TS_ROWS(vlp), VL_TS_COLUMNS(vlp)) &&
	VL_TI_TERMS(vlp) == SIZE(type, VL_TI_ROWS(vlp), VL_TI_COLUMNS(vlp)) &&
	VL_TX_TERMS(vlp) == SIZE(type, VL_TX_ROWS(vlp), VL_TX_COLUMNS(vlp)) &&
	VL_TM_TERMS(vlp) == SIZE(type, VL_TM_ROWS(vlp), VL_TM_COLUMNS(vlp)) &&
	VL_TI_OFFSET(vlp) == VL_TS_OFFSET(vlp) + VL_TS_TERMS(vlp) &&
	VL_TX_OFFSET(vlp) == VL_TI_OFFSET(vlp) + VL_TI_TERMS(vlp) &&
	VL_TM_OFFSET(vlp) == VL_TX_OFFSET(vlp) + VL_TX_TERMS(vlp) &&
	VL_EL_OFFSET(vlp) == VL_TM_OFFSET(vlp) + VL_TM_TERMS(vlp) &&
	VL_EL_TERMS(vlp) == (HAS_EL(type) ? m_rows * m_columns - DIAG(m_rows, m_columns) : 0) &&
	VL_ERROR_TERMS(vlp) == VL_EL_OFFSET(vlp) + VL_EL_TERMS(vlp))
/* U types: [Um | Ui | Ux | Us | El] */
__CPROVER_ensures(IS_U(type) ==>
	VL_UM_OFFSET(vlp) == 0 &&
	VL_UM_TERMS(vlp) == SIZE(type, VL_UM_ROWS(vlp), VL_UM_COLUMNS(vlp)) &&
	VL_UI_TERMS(vlp) == SIZE(type, VL_UI_ROWS(vlp), VL_UI_COLUMNS(vlp)) &&
	VL_UX_TERMS(vlp) == SIZE(type, VL_UX_ROWS(vlp), VL_UX_COLUMNS(vlp)) &&
	VL_US_TERMS(vlp) == SIZE(type, VL_US_ROWS(vlp), VL_US_COLUMNS(vlp)) &&
	VL_UI_OFFSET(vlp) == VL_UM_OFFSET(vlp) + VL_UM_TERMS(vlp) &&
	VL_UX_OFFSET(vlp) == VL_UI_OFFSET(vlp) + VL_UI_TERMS(vlp) &&
	VL_US_OFFSET(vlp) == VL_UX_OFFSET(vlp) + VL_UX_TERMS(vlp) &&
	VL_EL_OFFSET(vlp) == VL_US_OFFSET(vlp) + VL_US_TERMS(vlp) &&
	VL_EL_TERMS(vlp) == (HAS_EL(type) ? m_rows * m_columns - DIAG(m_rows, m_columns) : 0) &&
	VL_ERROR_TERMS(vlp) == VL_EL_OFFSET(vlp) + VL_EL_TERMS(vlp))
/* UE14: one [Um | Ui | Ux | Us] block per measurement column, then El */
__CPROVER_ensures(IS_UE14(type) ==>
	VL_UM14_TERMS(vlp) == DIAG(VL_UM14_ROWS(vlp), VL_UM14_COLUMNS(vlp)) &&
	VL_UI14_TERMS(vlp) == 1 &&
	VL_UX14_TERMS(vlp) == DIAG(VL_UX14_ROWS(vlp), VL_UX14_COLUMNS(vlp)) &&
	VL_US14_TERMS(vlp) == 1 &&
	VL_UM14_OFFSET(vlp, 0) == 0 &&
	VL_UI14_OFFSET(vlp, 0) == VL_UM14_OFFSET(vlp, 0) + VL_UM14_TERMS(vlp) &&
	VL_UX14_OFFSET(vlp, 0) == VL_UI14_OFFSET(vlp, 0) + VL_UI14_TERMS(vlp) &&
	VL_US14_OFFSET(vlp, 0) == VL_UX14_OFFSET(vlp, 0) + VL_UX14_TERMS(vlp) &&
	VL_UM14_OFFSET(vlp, 1) == VL_US14_OFFSET(vlp, 0) + VL_US14_TERMS(vlp) &&
	VL_EL_OFFSET(vlp) == m_columns * VL_UM14_OFFSET(vlp, 1) &&
	VL_EL_TERMS(vlp) == m_rows * m_columns - DIAG(m_rows, m_columns) &&
	VL_ERROR_TERMS(vlp) == VL_EL_OFFSET(vlp) + VL_EL_TERMS(vlp))
/* E12: per column [El | Er | Em], m_rows terms each */
__CPROVER_ensures(type == VNACAL_E12 ==>
	VL_ERROR_TERMS(vlp) == m_columns * 3 * m_rows)
;
#endif

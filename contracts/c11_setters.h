/*
 * Function contracts (CBMC code contracts, enforced with goto-instrument
 * --dfcc --enforce-contract) for the argument-validating setters.  The
 * contract is attached to a re-declaration; the definition is the unmodified
 * translation unit of /repo/src.
 *
 * Shape of every contract, taken from C11: the call returns 0 and stores the
 * value when the argument is acceptable; otherwise it returns -1, reports
 * exactly one usage error (errno EINVAL) and - by the assigns clause, which
 * DFCC checks for every write in the body - changes nothing else in the
 * object.
 */
#ifndef C11_SETTERS_H
#define C11_SETTERS_H
#include "archdep.h"
#include <errno.h>
#include "verif_err.h"
#include <vnacal_internal.h>
#include <vnacal_new_internal.h>

extern int __CPROVER_errno;

#define GHOST_OK \
    (ghost_err_calls >= 0 && ghost_err_calls < 1000 && \
     ghost_err_fn_calls >= 0 && ghost_err_fn_calls < 1000)
#define VNP_OK(vnp) \
    (GHOST_OK && __CPROVER_is_fresh(vnp, sizeof(vnacal_new_t)) && \
     (vnp)->vn_magic == VN_MAGIC && \
     __CPROVER_is_fresh((vnp)->vn_vcp, sizeof(vnacal_t)) && \
     ((vnp)->vn_vcp->vc_error_fn == NULL || \
      (vnp)->vn_vcp->vc_error_fn == verif_error_fn))

#define SAME_D(a, b)	((a) == (b) || ((a) != (a) && (b) != (b)))
#define REFUSED_ONCE \
    (ghost_err_calls == __CPROVER_old(ghost_err_calls) + 1 && \
     ghost_err_category == VNAERR_USAGE && errno == EINVAL)
#define SILENT \
    (ghost_err_calls == __CPROVER_old(ghost_err_calls))

int vnacal_new_set_et_tolerance(vnacal_new_t *vnp, double tolerance)
__CPROVER_requires(VNP_OK(vnp))
__CPROVER_assigns(vnp->vn_et_tolerance, ghost_err_calls, ghost_err_category,
	ghost_err_fn_calls, __CPROVER_errno)
__CPROVER_ensures(__CPROVER_return_value == (tolerance < 0.0 ? -1 : 0))
__CPROVER_ensures(tolerance < 0.0 ==>
	REFUSED_ONCE && SAME_D(vnp->vn_et_tolerance, __CPROVER_old(vnp->vn_et_tolerance)))
__CPROVER_ensures(!(tolerance < 0.0) ==> SILENT && (vnp->vn_et_tolerance == tolerance || tolerance != tolerance))
;

int vnacal_new_set_p_tolerance(vnacal_new_t *vnp, double tolerance)
__CPROVER_requires(VNP_OK(vnp))
__CPROVER_assigns(vnp->vn_p_tolerance, ghost_err_calls, ghost_err_category,
	ghost_err_fn_calls, __CPROVER_errno)
__CPROVER_ensures(__CPROVER_return_value == (tolerance < 0.0 ? -1 : 0))
__CPROVER_ensures(tolerance < 0.0 ==>
	REFUSED_ONCE && SAME_D(vnp->vn_p_tolerance, __CPROVER_old(vnp->vn_p_tolerance)))
__CPROVER_ensures(!(tolerance < 0.0) ==> SILENT && (vnp->vn_p_tolerance == tolerance || tolerance != tolerance))
;

int vnacal_new_set_iteration_limit(vnacal_new_t *vnp, int iterations)
__CPROVER_requires(VNP_OK(vnp))
__CPROVER_assigns(vnp->vn_iteration_limit, ghost_err_calls, ghost_err_category,
	ghost_err_fn_calls, __CPROVER_errno)
__CPROVER_ensures(__CPROVER_return_value == (iterations < 1 ? -1 : 0))
__CPROVER_ensures(iterations < 1 ==>
	REFUSED_ONCE && vnp->vn_iteration_limit == __CPROVER_old(vnp->vn_iteration_limit))
__CPROVER_ensures(iterations >= 1 ==> SILENT && vnp->vn_iteration_limit == iterations)
;

int vnacal_new_set_pvalue_limit(vnacal_new_t *vnp, double significance)
__CPROVER_requires(VNP_OK(vnp))
__CPROVER_requires(significance == significance)	/* NaN: not specified */
__CPROVER_assigns(vnp->vn_pvalue_limit, ghost_err_calls, ghost_err_category,
	ghost_err_fn_calls, __CPROVER_errno)
__CPROVER_ensures(__CPROVER_return_value ==
	((significance > 0.0 && significance <= 1.0) ? 0 : -1))
__CPROVER_ensures(!(significance > 0.0 && significance <= 1.0) ==>
	REFUSED_ONCE && SAME_D(vnp->vn_pvalue_limit, __CPROVER_old(vnp->vn_pvalue_limit)))
__CPROVER_ensures((significance > 0.0 && significance <= 1.0) ==>
	SILENT && vnp->vn_pvalue_limit == significance)
;

#define VCP_OK(vcp) \
    (GHOST_OK && __CPROVER_is_fresh(vcp, sizeof(vnacal_t)) && (vcp)->vc_magic == VC_MAGIC && \
     ((vcp)->vc_error_fn == NULL || (vcp)->vc_error_fn == verif_error_fn))

int vnacal_set_fprecision(vnacal_t *vcp, int precision)
__CPROVER_requires(VCP_OK(vcp))
__CPROVER_assigns(vcp->vc_fprecision, ghost_err_calls, ghost_err_category,
	ghost_err_fn_calls, __CPROVER_errno)
__CPROVER_ensures(__CPROVER_return_value == (precision < 1 ? -1 : 0))
__CPROVER_ensures(precision < 1 ==>
	REFUSED_ONCE && vcp->vc_fprecision == __CPROVER_old(vcp->vc_fprecision))
__CPROVER_ensures(precision >= 1 ==> SILENT && vcp->vc_fprecision == precision)
;

int vnacal_set_dprecision(vnacal_t *vcp, int precision)
__CPROVER_requires(VCP_OK(vcp))
__CPROVER_assigns(vcp->vc_dprecision, ghost_err_calls, ghost_err_category,
	ghost_err_fn_calls, __CPROVER_errno)
__CPROVER_ensures(__CPROVER_return_value == (precision < 1 ? -1 : 0))
__CPROVER_ensures(precision < 1 ==>
	REFUSED_ONCE && vcp->vc_dprecision == __CPROVER_old(vcp->vc_dprecision))
__CPROVER_ensures(precision >= 1 ==> SILENT && vcp->vc_dprecision == precision)
;
#endif

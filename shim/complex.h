/*
 * Shim <complex.h> for CBMC 6.11 (placed ahead of the system include path
 * with -I/verif/shim).  CBMC aborts on any call of a function that RETURNS
 * `double complex` (symex_assign type invariant).  This header makes the
 * keyword `complex` vanish, so the unmodified libvna source is compiled with
 * real-valued cells: `double complex x` becomes `double x`.
 *
 * What is dropped: the imaginary component of every value and the meaning of
 * I.  What is kept: every index, bound, allocation size (sizeof(double
 * complex) becomes sizeof(double) consistently in code and harness), branch
 * and call of the real source.  No obligation about numerical values is
 * claimed from a unit compiled against this header.
 */
#ifndef VERIF_SHIM_COMPLEX_H
#define VERIF_SHIM_COMPLEX_H
#define VERIF_SHIM_COMPLEX 1
#define complex
#define _Complex_I	0.0
#define I		0.0
static inline double creal(double z)	{ return z; }
static inline double cimag(double z)	{ (void)z; return 0.0; }
static inline double conj(double z)	{ return z; }
static inline double cabs(double z)	{ return z < 0.0 ? -z : z; }
static inline double carg(double z)	{ (void)z; return 0.0; }
double verif_uf_csqrt(double), verif_uf_cexp(double), verif_uf_csinh(double),
       verif_uf_ccosh(double);
#define csqrt(z)	verif_uf_csqrt(z)
#define cexp(z)		verif_uf_cexp(z)
#define csinh(z)	verif_uf_csinh(z)
#define ccosh(z)	verif_uf_ccosh(z)
#endif

#!/usr/bin/env python3
"""extract_fn.py <file.c> <function> <out>: cut one function from its `^static <type> name(` / `^<type> name(`
line to the first `^}` line.  Exits 2 unless the rule fires exactly once.  Prints the SHA-256 of the text."""
import hashlib
import re
import sys

src, fn, out = sys.argv[1:4]
lines = open(src).read().split("\n")
starts = [i for i, l in enumerate(lines) if re.match(r"^(static\s+)?[A-Za-z_][\w \*]*\b" + re.escape(fn) + r"\s*\(", l)]
if len(starts) != 1:
    sys.stderr.write("extract_fn: rule fired %d times for %s in %s\n" % (len(starts), fn, src))
    sys.exit(2)
i = starts[0]
j = next((k for k in range(i, len(lines)) if lines[k] == "}"), None)
if j is None:
    sys.exit(2)
text = "\n".join(lines[i:j + 1]) + "\n"
open(out, "w").write(text)
print(hashlib.sha256(text.encode()).hexdigest())

/*
 * ASSUMED CONTRACT for _vnaerr_verror, used by every harness that does not
 * itself verify the real body (the real body is checked against exactly this
 * contract by check C11, job verror).  In native replay builds the real
 * _vnaerr_verror is linked and this file only provides the counters and the
 * callback.
 */
#include <errno.h>
#include <stdarg.h>
#include <stdlib.h>
#include "verif.h"
#include "verif_err.h"
#include <vnaerr_internal.h>

int ghost_err_calls;
int ghost_err_category = -1;
int ghost_err_fn_calls;

void verif_error_fn(const char *message, void *arg, vnaerr_category_t category)
{
    (void)message; (void)arg;
    ++ghost_err_fn_calls;
#ifdef VERIF_NATIVE
    ++ghost_err_calls;
    ghost_err_category = (int)category;
#else
    (void)category;
#endif
}

#ifdef VERIF_CBMC
void _vnaerr_verror(vnaerr_error_fn_t *error_fn, void *error_arg,
	vnaerr_category_t category, const char *format, va_list ap)
{
    int new_errno;

    (void)format; (void)ap;
    switch (category) {
    case VNAERR_SYSTEM:		new_errno = errno;		break;
    case VNAERR_USAGE:		new_errno = EINVAL;		break;
    case VNAERR_VERSION:	new_errno = ENOPROTOOPT;	break;
    case VNAERR_SYNTAX:		new_errno = EBADMSG;		break;
    case VNAERR_WARNING:	new_errno = 0;			break;
    case VNAERR_MATH:		new_errno = EDOM;		break;
    default:			new_errno = ENOSYS;		break;
    }
    ++ghost_err_calls;
    ghost_err_category = (int)category;
    if (error_fn != NULL) {
	(*error_fn)("", error_arg, category);
    }
    errno = new_errno;
}
#endif

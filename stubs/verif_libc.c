/*
 * ASSUMED CONTRACTS (models) for the few libc functions where CBMC 6.11's
 * built-in model is missing or unusable.  Only compiled in the CBMC build.
 *
 *  - strerror: returns a valid NUL-terminated string.
 *  - snprintf: writes a NUL-terminated string within the given size.
 *  - memcpy / memmove / memset: CBMC 6.11's built-in models give WRONG
 *    answers for a symbolic length (probe: memcpy(d, v, n*8) with n == 2 does
 *    not establish d[1] == v[1]), which shows up as spurious postcondition
 *    failures.  Replaced by plain loops (64-bit words, then bytes) with the
 *    usual preconditions as assertions.
 */
#ifdef VERIF_CBMC
#include <errno.h>
#include <stddef.h>
#include <stdint.h>

static char verif_strerror_buf[4] = "err";
char *strerror(int e)
{
    (void)e;
    return verif_strerror_buf;
}

/* ASSUMED CONTRACT: snprintf writes a NUL-terminated string of at most size bytes */
int snprintf(char *str, size_t size, const char *format, ...)
{
    (void)format;
    if (size != 0) {
	__CPROVER_assert(__CPROVER_w_ok(str, size), "snprintf: destination writable for size bytes");
	str[0] = 'm';
	str[size > 1 ? 1 : 0] = 0;
    }
    return 1;
}

#ifndef VERIF_BUILTIN_MEM	/* runs whose lengths are all concrete keep CBMC's built-in models */
void *memcpy(void *dst, const void *src, size_t n)
{
    size_t w = n / 8, i;

    if (n != 0) {
	__CPROVER_assert(__CPROVER_w_ok(dst, n), "memcpy: destination writable for n bytes");
	__CPROVER_assert(__CPROVER_r_ok(src, n), "memcpy: source readable for n bytes");
    }
    for (i = 0; i < w; ++i)
	((uint64_t *)dst)[i] = ((const uint64_t *)src)[i];
    for (i = w * 8; i < n; ++i)
	((unsigned char *)dst)[i] = ((const unsigned char *)src)[i];
    return dst;
}

void *memmove(void *dst, const void *src, size_t n)
{
    size_t w = n / 8, i;

    if (n != 0) {
	__CPROVER_assert(__CPROVER_w_ok(dst, n), "memmove: destination writable for n bytes");
	__CPROVER_assert(__CPROVER_r_ok(src, n), "memmove: source readable for n bytes");
    }
    if ((const char *)dst <= (const char *)src) {
	for (i = 0; i < w; ++i)
	    ((uint64_t *)dst)[i] = ((const uint64_t *)src)[i];
	for (i = w * 8; i < n; ++i)
	    ((unsigned char *)dst)[i] = ((const unsigned char *)src)[i];
    } else {
	for (i = n; i > w * 8; --i)
	    ((unsigned char *)dst)[i - 1] = ((const unsigned char *)src)[i - 1];
	for (i = w; i > 0; --i)
	    ((uint64_t *)dst)[i - 1] = ((const uint64_t *)src)[i - 1];
    }
    return dst;
}

void *memset(void *dst, int c, size_t n)
{
    size_t w = n / 8, i;
    uint64_t b = (unsigned char)c;
    uint64_t word = b * 0x0101010101010101ULL;

    if (n != 0)
	__CPROVER_assert(__CPROVER_w_ok(dst, n), "memset: destination writable for n bytes");
    for (i = 0; i < w; ++i)
	((uint64_t *)dst)[i] = word;
    for (i = w * 8; i < n; ++i)
	((unsigned char *)dst)[i] = (unsigned char)c;
    return dst;
}
#endif /* VERIF_BUILTIN_MEM */
#endif

/*
 * ASSUMED CONTRACTS (models) for the few libc functions where CBMC 6.11's
 * built-in model is missing or unusable.  Only compiled in the CBMC build.
 *
 *  - strerror: returns a valid NUL-terminated string.
 *  - snprintf: writes a NUL-terminated string within the given size.
 *  - memcpy / memmove / memset: CBMC 6.11's built-in models give WRONG
 *    answers for a symbolic length (probe: memcpy(d, v, n*8) with n == 2 does
 *    not establish d[1] == v[1]), which shows up as spurious postcondition
 *    failures.  Replaced by plain loops (64-bit words, then bytes) with the
 *    usual preconditions as assertions.
 */
#ifdef VERIF_CBMC
#include <errno.h>
#include <stddef.h>
#include <stdint.h>

static char verif_strerror_buf[4] = "err";
char *strerror(int e)
{
    (void)e;
    return verif_strerror_buf;
}


/*
 * <ctype.h> in glibc expands isalpha() etc. to a table lookup through
 * __ctype_b_loc(), for which CBMC has no body (the classification would be
 * non-deterministic).  ASSUMED CONTRACT: the "C" locale table.
 */
static const unsigned short verif_ctype_table[384] = {
0,0,0,0,0,0,0,0,0,0,0,0,0,0,0,0,0,0,0,0,0,0,0,0,0,0,0,0,0,0,0,0,0,0,0,0,0,0,0,0,0,0,0,0,0,0,0,0,0,0,0,0,0,0,0,0,0,0,0,0,0,0,0,0,0,0,0,0,0,0,0,0,0,0,0,0,0,0,0,0,0,0,0,0,0,0,0,0,0,0,0,0,0,0,0,0,0,0,0,0,0,0,0,0,0,0,0,0,0,0,0,0,0,0,0,0,0,0,0,0,0,0,0,0,0,0,0,0,2,2,2,2,2,2,2,2,2,8195,8194,8194,8194,8194,2,2,2,2,2,2,2,2,2,2,2,2,2,2,2,2,2,2,24577,49156,49156,49156,49156,49156,49156,49156,49156,49156,49156,49156,49156,49156,49156,49156,55304,55304,55304,55304,55304,55304,55304,55304,55304,55304,49156,49156,49156,49156,49156,49156,49156,54536,54536,54536,54536,54536,54536,50440,50440,50440,50440,50440,50440,50440,50440,50440,50440,50440,50440,50440,50440,50440,50440,50440,50440,50440,50440,49156,49156,49156,49156,49156,49156,54792,54792,54792,54792,54792,54792,50696,50696,50696,50696,50696,50696,50696,50696,50696,50696,50696,50696,50696,50696,50696,50696,50696,50696,50696,50696,49156,49156,49156,49156,2,0,0,0,0,0,0,0,0,0,0,0,0,0,0,0,0,0,0,0,0,0,0,0,0,0,0,0,0,0,0,0,0,0,0,0,0,0,0,0,0,0,0,0,0,0,0,0,0,0,0,0,0,0,0,0,0,0,0,0,0,0,0,0,0,0,0,0,0,0,0,0,0,0,0,0,0,0,0,0,0,0,0,0,0,0,0,0,0,0,0,0,0,0,0,0,0,0,0,0,0,0,0,0,0,0,0,0,0,0,0,0,0,0,0,0,0,0,0,0,0,0,0,0,0,0,0,0,0
};
static const unsigned short *verif_ctype_ptr = &verif_ctype_table[128];
const unsigned short **__ctype_b_loc(void)
{
    return &verif_ctype_ptr;
}

/* qsort: insertion sort through the caller's comparator (elements <= 16 bytes) */
void qsort(void *base, size_t nmemb, size_t size, int (*compar)(const void *, const void *))
{
    unsigned char *b = base;
    unsigned char tmp[16];

    __CPROVER_assert(size <= 16, "infra: qsort model handles elements up to 16 bytes");
    for (size_t i = 1; i < nmemb; ++i) {
	size_t j = i;

	while (j > 0 && compar(b + (j - 1) * size, b + j * size) > 0) {
	    for (size_t k = 0; k < size; ++k) {
		tmp[k] = b[(j - 1) * size + k];
		b[(j - 1) * size + k] = b[j * size + k];
		b[j * size + k] = tmp[k];
	    }
	    --j;
	}
    }
}

/* POSIX insque/remque on the library's list_t (two leading pointers): exact model */
struct verif_qelem { struct verif_qelem *q_forw, *q_back; };
void insque(void *elem, void *prev)
{
    struct verif_qelem *e = elem, *p = prev;

    if (p == NULL) {
	e->q_forw = e->q_back = NULL;
	return;
    }
    e->q_forw = p->q_forw;
    e->q_back = p;
    if (p->q_forw != NULL)
	p->q_forw->q_back = e;
    p->q_forw = e;
}

void remque(void *elem)
{
    struct verif_qelem *e = elem;

    if (e->q_forw != NULL)
	e->q_forw->q_back = e->q_back;
    if (e->q_back != NULL)
	e->q_back->q_forw = e->q_forw;
}

/* ASSUMED CONTRACT: snprintf writes a NUL-terminated string of at most size bytes */
int snprintf(char *str, size_t size, const char *format, ...)
{
    (void)format;
    if (size != 0) {
	__CPROVER_assert(__CPROVER_w_ok(str, size), "snprintf: destination writable for size bytes");
	str[0] = 'm';
	str[size > 1 ? 1 : 0] = 0;
    }
    return 1;
}

#ifndef VERIF_BUILTIN_MEM	/* runs whose lengths are all concrete keep CBMC's built-in models */
void *memcpy(void *dst, const void *src, size_t n)
{
    size_t w = n / 8, i;

    if (n != 0) {
	__CPROVER_assert(__CPROVER_w_ok(dst, n), "memcpy: destination writable for n bytes");
	__CPROVER_assert(__CPROVER_r_ok(src, n), "memcpy: source readable for n bytes");
	/* once reported, an out-of-bounds copy is not executed: what it would overwrite is garbage that only costs solver time */
	__CPROVER_assume(__CPROVER_w_ok(dst, n) && __CPROVER_r_ok(src, n));
    }
    for (i = 0; i < w; ++i)
	((uint64_t *)dst)[i] = ((const uint64_t *)src)[i];
    for (i = w * 8; i < n; ++i)
	((unsigned char *)dst)[i] = ((const unsigned char *)src)[i];
    return dst;
}

void *memmove(void *dst, const void *src, size_t n)
{
    size_t w = n / 8, i;

    if (n != 0) {
	__CPROVER_assert(__CPROVER_w_ok(dst, n), "memmove: destination writable for n bytes");
	__CPROVER_assert(__CPROVER_r_ok(src, n), "memmove: source readable for n bytes");
	__CPROVER_assume(__CPROVER_w_ok(dst, n) && __CPROVER_r_ok(src, n));
    }
    /* direction matters only inside one object (relational comparison of pointers into different objects is undefined) */
    if (!__CPROVER_same_object(dst, src) || __CPROVER_POINTER_OFFSET(dst) <= __CPROVER_POINTER_OFFSET(src)) {
	for (i = 0; i < w; ++i)
	    ((uint64_t *)dst)[i] = ((const uint64_t *)src)[i];
	for (i = w * 8; i < n; ++i)
	    ((unsigned char *)dst)[i] = ((const unsigned char *)src)[i];
    } else {
	for (i = n; i > w * 8; --i)
	    ((unsigned char *)dst)[i - 1] = ((const unsigned char *)src)[i - 1];
	for (i = w; i > 0; --i)
	    ((uint64_t *)dst)[i - 1] = ((const uint64_t *)src)[i - 1];
    }
    return dst;
}

void *memset(void *dst, int c, size_t n)
{
    size_t w = n / 8, i;
    uint64_t b = (unsigned char)c;
    uint64_t word = b * 0x0101010101010101ULL;

    if (n != 0) {
	__CPROVER_assert(__CPROVER_w_ok(dst, n), "memset: destination writable for n bytes");
	__CPROVER_assume(__CPROVER_w_ok(dst, n));
    }
    for (i = 0; i < w; ++i)
	((uint64_t *)dst)[i] = word;
    for (i = w * 8; i < n; ++i)
	((unsigned char *)dst)[i] = (unsigned char)c;
    return dst;
}
#endif /* VERIF_BUILTIN_MEM */
#endif

/*
 * gcc expands isfinite() to __builtin_isfinite, for which CBMC 6.11 has no
 * body (the call would return a nondeterministic value).  Exact model.
 */
#ifdef VERIF_CBMC
int __builtin_isfinite(double d)
{
    return !__CPROVER_isnand(d) && !__CPROVER_isinfd(d);
}
#endif

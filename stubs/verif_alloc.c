/*
 * Counted allocator for the allocation-fault engine (C12).  The repository
 * sources are compiled with -Dmalloc=verif_malloc -Dcalloc=verif_calloc
 * -Drealloc=verif_realloc -Dstrdup=verif_strdup (nothing in /repo changes);
 * the call number VERIF_FAIL_AT (1-based, concrete per run) returns NULL
 * with errno = ENOMEM exactly once; 0 means "never fail".
 */
#undef malloc
#undef calloc
#undef realloc
#undef strdup
#include <errno.h>
#include <stdlib.h>
#include <string.h>

#ifndef VERIF_FAIL_AT
#define VERIF_FAIL_AT 0
#endif
int verif_alloc_count;
int verif_alloc_failed;

static int verif_should_fail(void)
{
    ++verif_alloc_count;
    if (verif_alloc_count == VERIF_FAIL_AT) {
	verif_alloc_failed = 1;
	errno = ENOMEM;
	return 1;
    }
    return 0;
}

void *verif_malloc(size_t n)
{
    if (verif_should_fail())
	return NULL;
    return malloc(n);
}

void *verif_calloc(size_t n, size_t m)
{
    if (verif_should_fail())
	return NULL;
    return calloc(n, m);
}

void *verif_realloc(void *p, size_t n)
{
    if (verif_should_fail())
	return NULL;
    return realloc(p, n);
}

char *verif_strdup(const char *s)
{
    size_t n;
    char *r;

    if (verif_should_fail())
	return NULL;
    n = strlen(s) + 1;
    r = malloc(n);
    if (r != NULL)
	memcpy(r, s, n);
    return r;
}

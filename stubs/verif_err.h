/*
 * Ghost state for error reporting: every harness sees errors through these
 * counters.  ghost_err_calls counts invocations of _vnaerr_verror (hence, by
 * the contract proved for the real _vnaerr_verror in C11, the number of times
 * a non-NULL user error function is called).
 */
#ifndef VERIF_ERR_H
#define VERIF_ERR_H
#include <vnaerr.h>
extern int ghost_err_calls;		/* calls of _vnaerr_verror */
extern int ghost_err_category;		/* category of the last call */
extern int ghost_err_fn_calls;		/* calls of the user's callback */
extern void verif_error_fn(const char *message, void *arg,
	vnaerr_category_t category);
#endif

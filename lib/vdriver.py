#!/usr/bin/env python3
"""
vdriver -- runs the contract/obligation jobs of one property with CBMC 6.11
against /repo's current working tree, writes the evidence file, the replay
files and the verdict line.

Exit codes: 0 held (possibly with KNOWN-FINDING lines), 1 violation
(VIOLATION line printed), 2 infrastructure problem (timeout, tool error,
extraction rule did not fire, zero obligations, canary not firing).
"""
import concurrent.futures as cf
import hashlib
import json
import os
import re
import shlex
import shutil
import subprocess
import sys
import time

VERIF = os.path.dirname(os.path.dirname(os.path.abspath(__file__)))
REPO = os.environ.get("VERIF_REPO", "/repo")
SRC = os.path.join(REPO, "src")
BUILD = os.path.join(VERIF, "build")
GUARD = "LIBVNA_VERIF"
NCPU = int(os.environ.get("VERIF_JOBS", str(os.cpu_count() or 4)))
MEM_KB = int(os.environ.get("VERIF_MEM_KB", str(12 * 1024 * 1024)))

BASE_INC = ["-I" + os.path.join(VERIF, "include"),
            "-I" + os.path.join(VERIF, "stubs"),
            "-I" + os.path.join(VERIF, "contracts"),
            "-I" + REPO, "-I" + SRC]
BASE_DEF = ["-DHAVE_CONFIG_H", "-D" + GUARD]


class Job:
    """One CBMC run (plus, optionally, its canary twin)."""

    def __init__(self, name, harness, entry, sources=(), stubs=("verif_err.c", "verif_libc.c"),
                 defines=(), unwind=6, shim=True, union_struct=False,
                 kind="proof", canary=False, timeout=600, dfcc=None,
                 functions=(), bound="", cbmc_flags=(), harness_unwind=160,
                 native_sources=None, expect_fail=None, group=None, require=(), include_dirs=(), strip=None, unwindset=None):
        self.name = name
        self.harness = harness if os.path.isabs(harness) else os.path.join(VERIF, "harness", harness)
        self.entry = entry
        self.sources = [s if os.path.isabs(s) else os.path.join(SRC, s) for s in sources]
        self.stubs = [s if os.path.isabs(s) else os.path.join(VERIF, "stubs", s) for s in stubs]
        self.defines = list(defines)
        self.unwind = unwind
        self.shim = shim
        self.union_struct = union_struct
        self.kind = kind            # 'proof' | 'bounded'
        self.canary = canary        # also build with -DVERIF_CANARY; REACH() must fail
        self.timeout = timeout
        self.dfcc = dfcc            # dict(enforce=[...], replace=[...], loops=bool)
        self.functions = list(functions)
        self.bound = bound
        self.cbmc_flags = list(cbmc_flags)
        self.harness_unwind = harness_unwind
        self.native_sources = native_sources
        self.expect_fail = expect_fail  # regex: obligations that MUST fail (negative control)
        self.group = group or entry
        self.require = list(require)
        self.include_dirs = list(include_dirs)
        self.unwindset = dict(unwindset or {})   # loop id -> bound, overrides --unwind / the harness default for that loop
        self.strip = strip or {}   # {repo source: [functions whose bodies are removed and supplied by the harness as contracts]}  # regexes: obligations that must exist and be SUCCESS


def sh(cmd, timeout=None, cwd=None, env=None, mem=True):
    """run a command, return (rc, stdout, stderr, seconds); rc=-9 on timeout"""
    t0 = time.time()
    pre = None
    if mem:
        def pre():
            import resource
            resource.setrlimit(resource.RLIMIT_AS, (MEM_KB * 1024, MEM_KB * 1024))
    try:
        p = subprocess.run(cmd, stdout=subprocess.PIPE, stderr=subprocess.PIPE, timeout=timeout,
                           cwd=cwd, env=env, preexec_fn=pre, text=True, errors="replace")
        return p.returncode, p.stdout, p.stderr, time.time() - t0
    except subprocess.TimeoutExpired as e:
        return -9, (e.stdout or "") if isinstance(e.stdout, str) else "", "TIMEOUT", time.time() - t0


def compile_flags(job, canary=False):
    fl = ["-DVERIF_CBMC"] + BASE_DEF + job.defines
    if canary:
        fl.append("-DVERIF_CANARY")
    if job.union_struct:
        fl.append("-Dunion=struct")
    inc = []
    if job.shim:
        inc.append("-I" + os.path.join(VERIF, "shim"))
    inc += BASE_INC
    inc.append("-I" + os.path.dirname(job.harness))
    inc += ["-I" + d for d in job.include_dirs]
    return fl + inc


def parse_cbmc_json(text):
    """returns (results list, status string, error messages)"""
    try:
        data = json.loads(text)
    except Exception:
        # truncated output: try to salvage
        return None, "parse-error", [text[-2000:]]
    results, status, errors = None, None, []
    for x in data:
        if not isinstance(x, dict):
            continue
        if "result" in x:
            results = x["result"]
        if "cProverStatus" in x:
            status = x["cProverStatus"]
        if x.get("messageType") == "ERROR":
            errors.append(x.get("messageText", ""))
    return results, status, errors


def trace_inputs(trace, entry=None):
    """named harness inputs from a CBMC json trace: last assignment per lhs"""
    vals = {}
    for st in trace or []:
        if st.get("stepType") != "assignment" or st.get("assignmentType") == "actual-parameter":
            continue
        lhs = st.get("lhs")
        v = st.get("value", {})
        if lhs is None or "binary" not in v and "data" not in v:
            continue
        loc = st.get("sourceLocation", {})
        f = loc.get("file", "")
        if not f.startswith(VERIF):
            continue
        if entry is not None and loc.get("function") != entry:
            continue
        m = re.fullmatch(r"([A-Za-z_][A-Za-z0-9_]*)(?:\[(\d+)l?\])?", lhs)
        if not m:
            continue
        name, idx = m.group(1), int(m.group(2)) if m.group(2) is not None else -1
        if name.endswith("_i") and idx == -1 and (name[:-2], 0) in vals:
            continue
        typ = v.get("type", "")
        b = v.get("binary")
        if v.get("name") == "float" and b and len(b) == 64:
            typ = "double"
        elif v.get("name") == "float" and b and len(b) == 32:
            typ = "float"
        if typ in ("double",) and b and len(b) == 64:
            text = "0x%016x" % int(b, 2)
        elif typ == "float" and b and len(b) == 32:
            import struct
            fl = struct.unpack(">f", int(b, 2).to_bytes(4, "big"))[0]
            text = "0x%016x" % struct.unpack(">Q", struct.pack(">d", fl))[0]
        elif v.get("name") == "integer" and b and len(b) in (8, 16, 32, 64):
            iv = int(b, 2)
            if not str(typ).startswith("unsigned") and b[0] == "1":
                iv -= 1 << len(b)
            text = str(iv)
        elif "data" in v:
            d = str(v["data"])
            if d in ("TRUE", "true", "True"):
                text = "1"
            elif d in ("FALSE", "false", "False"):
                text = "0"
            else:
                mm = re.match(r"^-?\d+", d)
                if not mm:
                    continue
                text = mm.group(0)
        else:
            continue
        vals[(name, idx)] = text
    return vals


def run_job_frugal(job, canary=False):
    """run_job, then drop the work directory of a run that needs no diagnosis (disk: a thorough tier is thousands
    of runs of 10-20 MB each; VERIF_KEEP_BUILD=1 keeps everything)"""
    res = run_job(job, canary)
    if res.get("status") == "pass" and not res.get("failed") and not os.environ.get("VERIF_KEEP_BUILD"):
        shutil.rmtree(os.path.join(BUILD, job.prop, job.name + (".canary" if canary else "")), ignore_errors=True)
    return res


def run_job(job, canary=False):
    """compile + (instrument) + cbmc; returns a result dict"""
    tag = job.name + (".canary" if canary else "")
    wd = os.path.join(BUILD, job.prop, tag)
    shutil.rmtree(wd, ignore_errors=True)
    os.makedirs(wd)
    res = dict(job=job.name, canary=canary, entry=job.entry, kind=job.kind, status="error",
               obligations=0, discharged=0, failed=[], seconds=0.0, solver_s=0.0,
               backend="cbmc-6.11 SAT (minisat2)", cmd="", detail="", reach={}, bound=job.bound,
               defines=job.defines)
    t0 = time.time()
    gb = os.path.join(wd, "h.gb")
    srcs = list(job.sources)
    for n_, (src, fns) in enumerate(sorted(job.strip.items())):
        src = src if os.path.isabs(src) else os.path.join(SRC, src)
        o1 = os.path.join(wd, "strip%d.gb" % n_)
        o2 = os.path.join(wd, "strip%d_s.gb" % n_)
        rc, out, err, _ = sh(["goto-cc"] + compile_flags(job, canary) + ["-c", src, "-o", o1], timeout=300)
        if rc == 0:
            gi = ["goto-instrument"]
            for f in fns:
                gi += ["--remove-function-body", f]
            rc, out, err, _ = sh(gi + [o1, o2], timeout=300)
        if rc != 0:
            res["detail"] = "strip of %s failed: %s" % (src, (err or out)[-800:])
            res["seconds"] = time.time() - t0
            return res
        srcs = [x for x in srcs if x != src] + [o2]
    cc = ["goto-cc"] + compile_flags(job, canary) + ["--function", job.entry, job.harness] + \
        srcs + job.stubs + ["-o", gb]
    rc, out, err, _ = sh(cc, timeout=300)
    if rc != 0:
        res["detail"] = "goto-cc failed: " + (err or out)[-1500:]
        res["cmd"] = " ".join(map(shlex.quote, cc))
        res["seconds"] = time.time() - t0
        return res
    cmds = [" ".join(map(shlex.quote, cc))]
    if job.dfcc:
        gb2 = os.path.join(wd, "h2.gb")
        gi = ["goto-instrument", "--dfcc", job.entry]
        for f in job.dfcc.get("enforce", []):
            gi += ["--enforce-contract", f]
        for f in job.dfcc.get("replace", []):
            gi += ["--replace-call-with-contract", f]
        if job.dfcc.get("loops"):
            gi += ["--apply-loop-contracts"]
        gi += [gb, gb2]
        rc, out, err, _ = sh(gi, timeout=300)
        cmds.append(" ".join(map(shlex.quote, gi)))
        if rc != 0:
            res["detail"] = "goto-instrument failed: " + (out + err)[-1500:]
            res["cmd"] = " && ".join(cmds)
            res["seconds"] = time.time() - t0
            return res
        gb = gb2
    # harness loops (constant bounds) get a generous unwindset; repo loops get job.unwind
    rc, out, err, _ = sh(["cbmc", gb, "--show-loops", "--json-ui"], timeout=120)
    uset = []
    try:
        for x in json.loads(out):
            if isinstance(x, dict) and "loops" in x:
                for lp in x["loops"]:
                    f = lp.get("sourceLocation", {}).get("file", "")
                    if f.startswith(VERIF):
                        uset.append("%s:%d" % (lp["name"], job.harness_unwind))
    except Exception:
        pass
    cb = ["cbmc", gb, "--no-malloc-may-fail"] + ([] if "--object-bits" in job.cbmc_flags else ["--object-bits", "12"]) + \
         ["--json-ui", "--trace", "--unwinding-assertions"]
    if "--no-leak" not in job.cbmc_flags:
        cb.append("--memory-leak-check")
    if job.unwind is not None:
        cb += ["--unwind", str(job.unwind)]
    if job.unwindset:
        uset = [u for u in uset if u.rsplit(":", 1)[0] not in job.unwindset] + \
               ["%s:%d" % kv for kv in sorted(job.unwindset.items())]
    if uset:
        cb += ["--unwindset", ",".join(uset)]
    cb += [f for f in job.cbmc_flags if f != "--no-leak"]
    ts = time.time()
    rc, out, err, secs = sh(cb, timeout=job.timeout)
    res["solver_s"] = round(time.time() - ts, 2)
    cmds.append(" ".join(map(shlex.quote, cb)))
    res["cmd"] = " && ".join(cmds)
    with open(os.path.join(wd, "cbmc.json"), "w") as f:
        f.write(out)
    if rc == -9:
        res["detail"] = "cbmc timeout after %ds" % job.timeout
        res["status"] = "timeout"
        res["seconds"] = time.time() - t0
        return res
    results, status, errors = parse_cbmc_json(out)
    if results is None:
        res["detail"] = "cbmc gave no result table (rc=%d): %s %s" % (rc, "; ".join(errors)[-800:], err[-400:])
        res["seconds"] = time.time() - t0
        return res
    res["obligations"] = len(results)
    if any(r.get("status") == "ERROR" for r in results):
        # the back end gave up (out of memory, internal error): nothing is decided, and it is not an unwinding problem
        res["status"] = "error"
        res["detail"] = "solver error, nothing decided: " + ("; ".join(errors)[-400:] or "obligations in status ERROR")
        res["seconds"] = round(time.time() - t0, 2)
        return res
    failed = []
    reach = {}
    probes = {}
    n_probe_results = 0
    unwind_fail = []
    for r in results:
        desc = r.get("description", "")
        st = r.get("status")
        if desc.startswith("reach-probe: "):
            n_probe_results += 1
            if r.get("sourceLocation", {}).get("function") == job.entry and not canary:
                nm = desc[len("reach-probe: "):]
                probes[nm] = probes.get(nm, False) or (st == "FAILURE")
            continue
        if desc.startswith("canary-reach: "):
            if r.get("sourceLocation", {}).get("function") == job.entry:
                reach[desc[len("canary-reach: "):]] = (st == "FAILURE")
            if canary:
                continue
        if st == "SUCCESS":
            res["discharged"] += 1
            continue
        loc = r.get("sourceLocation", {})
        ent = dict(obligation=r.get("property"), description=desc, status=st,
                   file=loc.get("file"), line=loc.get("line"), function=loc.get("function"))
        if "unwinding assertion" in desc or "recursion unwinding" in desc:
            unwind_fail.append(ent)
            continue
        if st == "FAILURE":
            ent["inputs"] = {("%s[%d]" % k if k[1] >= 0 else k[0]): v
                             for k, v in trace_inputs(r.get("trace"), job.entry).items()}
        failed.append(ent)
    for rq in job.require:
        if not any(re.search(rq, (r.get("property") or "") + " " + (r.get("description") or "")) and
                   r.get("status") == "SUCCESS" for r in results) and not canary:
            res["status"] = "error"
            res["detail"] = "required obligation missing or not discharged: " + rq
            res["seconds"] = round(time.time() - t0, 2)
            res["failed"] = failed
            if not failed:
                return res
    res["reach"] = reach
    res["probes"] = probes
    res["obligations"] -= n_probe_results
    res["failed"] = failed
    res["seconds"] = round(time.time() - t0, 2)
    if unwind_fail:
        res["detail"] = "unwinding assertion failed (bound too small): " + \
            ", ".join(e["obligation"] for e in unwind_fail[:5])
        if any(e["status"] == "FAILURE" for e in failed) and not canary:
            # counterexamples found below the bound are real paths: report them (the run is incomplete, not wrong)
            res["status"] = "fail"
            return res
        res["status"] = "error"
        return res
    if canary:
        res["obligations"] = 0
        res["discharged"] = 0
        res["status"] = "pass"
        return res
    res["status"] = "fail" if failed else "pass"
    return res


# ---------------------------------------------------------------------------
# native replay
# ---------------------------------------------------------------------------
_native_lib = {}


def native_lib(asan=True):
    """compile every library source of /repo/src natively (sanitized) once per run"""
    key = asan
    if key in _native_lib:
        return _native_lib[key]
    wd = os.path.join(BUILD, "_native")
    shutil.rmtree(wd, ignore_errors=True)
    os.makedirs(wd)
    srcs = []
    mk = open(os.path.join(SRC, "Makefile.am")).read()
    m = re.search(r"libvna_la_SOURCES\s*=((?:.*\\\n)*.*\n)", mk)
    names = re.findall(r"([A-Za-z0-9_]+\.c)", m.group(1)) if m else []
    for n in names:
        p = os.path.join(SRC, n)
        if os.path.exists(p):
            srcs.append(p)
    san = ["-fsanitize=address,undefined"] if asan else []

    def one(p):
        o = os.path.join(wd, os.path.basename(p)[:-2] + ".o")
        rc, out, err, _ = sh(["cc", "-g", "-O0", "-DHAVE_CONFIG_H", "-I" + REPO, "-I" + SRC] + san +
                             ["-c", p, "-o", o], timeout=300, mem=False)
        return o if rc == 0 else None
    with cf.ThreadPoolExecutor(NCPU) as ex:
        objs = [o for o in ex.map(one, srcs) if o]
    lib = os.path.join(wd, "libvna_native.a")
    sh(["ar", "rcs", lib] + objs, mem=False)
    _native_lib[key] = lib
    return lib


def native_replay(job, inputs):
    """rebuild the harness natively against the real library and run it on the trace values"""
    wd = os.path.join(BUILD, job.prop, job.name + ".native")
    shutil.rmtree(wd, ignore_errors=True)
    os.makedirs(wd)
    lib = native_lib()
    vf = os.path.join(wd, "values.txt")
    with open(vf, "w") as f:
        for k, v in inputs.items():
            m = re.fullmatch(r"(\w+)\[(\d+)\]", k)
            if m:
                f.write("%s %s %s\n" % (m.group(1), m.group(2), v))
            else:
                f.write("%s -1 %s\n" % (k, v))
    exe = os.path.join(wd, "replay")
    defs = [d for d in job.defines]
    srcs = job.native_sources
    if srcs is None:
        # harness + stubs; the library comes from the archive, except TUs the harness
        # #includes textually (static functions), which then shadow the archive member
        srcs = []
    cc = ["cc", "-g", "-O0", "-DVERIF_NATIVE", "-DHARNESS=" + job.entry, "-DHAVE_CONFIG_H"] + defs + BASE_INC + \
        ["-I" + os.path.dirname(job.harness), "-fsanitize=address,undefined", job.harness,
         os.path.join(VERIF, "include", "verif_native.c"),
         os.path.join(VERIF, "stubs", "verif_err.c")] + list(srcs) + [lib, "-lm", "-lyaml", "-o", exe]
    rc, out, err, _ = sh(cc, timeout=300, mem=False)
    if rc != 0:
        return dict(built=False, detail=(err or out)[-1500:], cmd=" ".join(cc))
    env = dict(os.environ, VERIF_REPLAY_VALUES=vf, ASAN_OPTIONS="detect_leaks=1:abort_on_error=0",
               UBSAN_OPTIONS="print_stacktrace=1")
    rc, out, err, _ = sh([exe], timeout=60, env=env, mem=False)
    reproduced = rc != 0 or "runtime error:" in err or "AddressSanitizer" in err
    return dict(built=True, rc=rc, reproduced=reproduced, stderr=err[-3000:], stdout=out[-500:],
                cmd=" ".join(cc), values_file=vf)


# ---------------------------------------------------------------------------
# known findings
# ---------------------------------------------------------------------------
def load_known(prop):
    known = []
    p = os.path.join(VERIF, "known-findings.txt")
    if not os.path.exists(p):
        return known
    for line in open(p):
        line = line.strip()
        if not line.startswith("known:"):
            continue
        m = re.match(r"known:\s+property=(\S+)\s+job=(\S+)\s+obligation=(\S+)\s+::\s*(.*)", line)
        if m and m.group(1) == prop:
            known.append(dict(job=m.group(2), obligation=m.group(3), what=m.group(4)))
    return known


def match_known(known, jobname, ent):
    for k in known:
        if re.fullmatch(k["job"], jobname) and \
                (re.search(k["obligation"], ent["description"] or "") or
                 re.fullmatch(k["obligation"], ent["obligation"] or "")):
            return k
    return None


# ---------------------------------------------------------------------------
# main entry used by the per-property modules
# ---------------------------------------------------------------------------
def run_property(prop, jobs, tier, level="proof", assumptions=(), trusted_base=(),
                 functions_note="", min_obligations=1, extra_coverage=None, technique=""):
    t0 = time.time()
    seed = int(os.environ.get("VERIF_SEED", "0") or 0)
    for j in jobs:
        j.prop = prop
    os.makedirs(os.path.join(BUILD, prop), exist_ok=True)
    work = []
    for j in jobs:
        work.append((j, False))
        if j.canary:
            work.append((j, True))
    results = []
    with cf.ThreadPoolExecutor(NCPU) as ex:
        futs = {ex.submit(run_job_frugal, j, c): (j, c) for j, c in work}
        for fu in cf.as_completed(futs):
            j, c = futs[fu]
            try:
                r = fu.result()
            except Exception as e:  # pragma: no cover
                r = dict(job=j.name, canary=c, status="error", detail="driver exception: %r" % e,
                         obligations=0, discharged=0, failed=[], seconds=0, solver_s=0, cmd="", reach={},
                         kind=j.kind, entry=j.entry, bound=j.bound, defines=j.defines, backend="")
            results.append((j, c, r))
    results.sort(key=lambda x: (x[0].name, x[1]))

    infra = []
    violations = []      # (job, ent)
    known_hits = []
    known = load_known(prop)
    obligations = discharged = 0
    reach_seen = {}
    probe_seen = {}
    neg_controls = []
    for j, c, r in results:
        if r["status"] in ("error", "timeout"):
            infra.append("%s%s: %s" % (j.name, ".canary" if c else "", r["detail"]))
            continue
        if c:
            for k, v in r["reach"].items():
                reach_seen[(j.group, k)] = reach_seen.get((j.group, k), False) or v
            continue
        pr = r.get("probes", {})
        if pr and not any(pr.values()) and not j.expect_fail:
            infra.append("%s: no REACH point of the harness is reachable under its assumptions (vacuous run)" % j.name)
        if not getattr(j, "imported", False):
            for k, v in pr.items():
                probe_seen[(j.entry, k)] = probe_seen.get((j.entry, k), False) or v
        if j.expect_fail:
            hit = [e for e in r["failed"] if re.search(j.expect_fail, e["description"] or "")]
            neg_controls.append(dict(job=j.name, must_fail=j.expect_fail, fired=bool(hit)))
            if not hit:
                infra.append("%s: negative control did not fire (%s)" % (j.name, j.expect_fail))
            continue
        obligations += r["obligations"]
        discharged += r["discharged"]
        for ent in r["failed"]:
            if ent["status"] != "FAILURE":
                # UNKNOWN only appears next to a FAILURE in the same run
                continue
            if (ent["description"] or "").startswith("infra:") or ".no-body." in (ent.get("obligation") or ""):
                # a callee without a body is a gap in the job's source list, never a verdict on the code
                infra.append("%s: %s" % (j.name, ent["description"]))
                continue
            k = match_known(known, j.name, ent)
            if k:
                known_hits.append((j, ent, k))
                obligations -= 1      # listed finding: reported separately, not part of the proof claim
            else:
                violations.append((j, ent))
    for (g, k), v in reach_seen.items():
        if not v:
            infra.append("canary: REACH(%s) in %s is unreachable under the harness assumptions (vacuous)" % (k, g))
    for (g, k), v in probe_seen.items():
        if not v:
            infra.append("reach-probe: REACH(%s) in %s is not reachable in any run of this check (vacuous branch)" % (k, g))
    if obligations < min_obligations and not infra:
        infra.append("only %d obligations generated (minimum %d): vacuous run" % (obligations, min_obligations))

    # ------------------------------------------------------------------ replay files
    rdir = os.path.join(VERIF, "replay", prop)
    shutil.rmtree(rdir, ignore_errors=True)
    vio_lines = []
    if violations:
        os.makedirs(rdir, exist_ok=True)
        byjob = {}
        for j, ent in violations:
            byjob.setdefault(j.name, (j, []))[1].append(ent)
        # replay natively (each costs a native build of the harness): at most 12, in parallel
        native_lib()
        todo = []
        for n, (jn, (j, ents)) in enumerate(sorted(byjob.items())):
            first = next((e for e in ents if "inputs" in e), None)
            if first is not None and n < 12:
                todo.append((jn, j, first["inputs"]))
        natives = {}
        with cf.ThreadPoolExecutor(NCPU) as ex:
            futs = {ex.submit(native_replay, j, inp): jn for jn, j, inp in todo}
            for fu in cf.as_completed(futs):
                try:
                    natives[futs[fu]] = fu.result()
                except Exception as e:  # pragma: no cover
                    natives[futs[fu]] = dict(built=False, detail="replay exception %r" % e)
        for n, (jn, (j, ents)) in enumerate(sorted(byjob.items())):
            native = natives.get(jn)
            path = os.path.join(rdir, jn + ".json")
            rj = next(r for jj, c, r in results if jj is j and not c)
            with open(path, "w") as f:
                json.dump(dict(property=prop, job=jn, entry=j.entry, harness=j.harness,
                               defines=j.defines,
                               failed_obligations=[{k: v for k, v in e.items()} for e in ents],
                               verifier_cmd=rj["cmd"],
                               verifier_output=os.path.join(BUILD, prop, jn, "cbmc.json"),
                               native_replay=native), f, indent=1)
            suffix = ""
            if not (native and native.get("built") and native.get("reproduced")):
                suffix = " no-failing-input-found"
            vio_lines.append("VIOLATION property=%s replay=%s obligation=%s%s" %
                             (prop, path, ents[0]["obligation"], suffix))

    # ------------------------------------------------------------------ evidence
    samples = []
    for j, c, r in results[:]:
        if c or r["status"] not in ("pass", "fail"):
            continue
        if len(samples) < 12:
            samples.append(dict(job=j.name, entry=j.entry, defines=j.defines, kind=j.kind,
                                obligations=r["obligations"], discharged=r["discharged"],
                                seconds=r["seconds"], bound=j.bound))
    kinds = sorted(set(j.kind for j, c, r in results if not c))
    funcs = sorted(set(f for j, c, r in results for f in j.functions))
    ev = dict(
        property_id=prop, tier=tier, seed=seed, level=level,
        coverage=dict(
            obligations=obligations, discharged=discharged,
            checker_cmd=(results[0][2]["cmd"] if results else ""),
            trusted_base=list(trusted_base),
            jobs=len([1 for j, c, r in results if not c]),
            canary_runs=len([1 for j, c, r in results if c]),
            canary_reach_points={"%s/%s" % k: v for k, v in sorted(reach_seen.items())},
            reach_probes={"%s/%s" % k: v for k, v in sorted(probe_seen.items())},
            negative_controls=neg_controls,
            functions_under_contract=funcs,
            functions_note=functions_note,
            result_kinds=kinds,
            bounds=sorted(set(j.bound for j, c, r in results if j.bound)),
            backend="cbmc 6.11.0 (goto-cc, goto-instrument --dfcc where stated), SAT back end minisat2",
            solver_s=round(sum(r["solver_s"] for j, c, r in results), 1),
            samples=samples,
            infrastructure_problems=infra,
            known_findings=[dict(job=j.name, obligation=e["obligation"], what=k["what"]) for j, e, k in known_hits],
            evaluations=len([1 for j, c, r in results if not c]),
            distinct_nontrivial=len(set((j.entry, tuple(j.defines)) for j, c, r in results if not c)),
            rule="one evaluation = one CBMC run (harness entry x concrete shape); values symbolic",
            technique=technique,
        ),
        assumptions=list(assumptions),
        wall_s=round(time.time() - t0, 1),
        violations=len(violations),
    )
    if extra_coverage:
        ev["coverage"].update(extra_coverage)
    os.makedirs(os.path.join(VERIF, "evidence"), exist_ok=True)
    with open(os.path.join(VERIF, "evidence", prop + ".json"), "w") as f:
        json.dump(ev, f, indent=1)

    with open(os.path.join(BUILD, prop, "timings.json"), "w") as f:
        json.dump(sorted([(r["seconds"], j.name, c, r["status"]) for j, c, r in results], reverse=True), f, indent=0)

    # ------------------------------------------------------------------ verdict
    print("%s tier=%s jobs=%d obligations=%d discharged=%d wall=%.0fs" %
          (prop, tier, ev["coverage"]["jobs"], obligations, discharged, time.time() - t0))
    seen = set()
    for j, e, k in known_hits:
        key = k["what"]
        if key not in seen:
            seen.add(key)
            print("KNOWN-FINDING: property=%s %s" % (prop, k["what"]))
    for line in infra:
        print("INFRA: " + line)
    if violations:
        for ln in vio_lines:
            print(ln)
        agg = {}
        for j, ent in violations:
            key = (j.entry, ent["description"], ent["file"], ent["line"])
            agg.setdefault(key, []).append(j.name)
        for (entry, desc, fl, ln), names in sorted(agg.items(), key=lambda kv: (kv[0][0], str(kv[0][2]), str(kv[0][3]))):
            print("  failed[%s] x%d: %s (%s:%s) e.g. %s" % (entry, len(names), desc, fl, ln, names[0]))
        return 1
    if infra:
        return 2
    return 0

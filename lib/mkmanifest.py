#!/usr/bin/env python3
"""Regenerates /verif/MANIFEST.json from the table below (run after adding a check)."""
import json
import os

VERIF = os.path.dirname(os.path.dirname(os.path.abspath(__file__)))

CLAIMED = {
    "C15": dict(
        level="proof",
        text="Every public vnadata_* data operation is verified by CBMC against a contract taken from the "
             "property statement (abstract frequency x rows x columns view, z0 modes, index n refused) and is "
             "shown to re-establish the representation invariant wf_vnadata from ANY well-formed object, so the "
             "model holds after every call history by induction.  Values, indices, types are fully symbolic; "
             "shapes are bounded (<=3x3x3 logical, <=4/10/4 allocated) and, for the allocating operations, "
             "enumerated concretely: bounded proof, not an unbounded one.  vnadata_convert in place (N x N -> Zin reshapes the "
             "object) re-establishes the same invariant, vacated cells included (in-place jobs of C05 re-run here).  The z0 vector setters "
             "accept one of the object's own vectors as the source, also across a mode switch that frees it.",
        note="bounded shapes; double complex compiled as double (imaginary part dropped); z0 union compiled as "
             "struct; _vnaerr_verror by contract stub; malloc never fails here (C12); own memcpy/memset/memmove "
             "models because CBMC 6.11's are wrong for symbolic lengths",
        design="DESIGN.md 3 C15, 8.1",
        technique="CBMC contract harnesses (wf-invariant + abstract-view postconditions) on the real functions",
    ),
}

CLAIMED["C10"] = dict(
    level="proof",
    text="The out-of-range clause is proved over the full double domain (loop-free harnesses on the real range "
         "tests of vnacal_new_add_*/set_frequency_vector, vnacal_new_set_m_error, vnacal_get_parameter_value and "
         "the bound functions used by apply): a >=5% miss at either end is refused, full coverage is accepted; the "
         "frequency range of a correlated parameter is the intersection of its correlate's range and its sigma grid; the "
         "re-check of standards added BEFORE the frequency vector (_vnacal_new_check_all_frequency_ranges) reaches the "
         "parameter whatever bucket it hashes to; a single noise point is accepted whatever the (unused) frequency says. "
         "the look-up every vnacal_new_add_* call makes when the frequencies are already known (_vnacal_new_get_parameter: vector parameter, "
         "correlated parameter with a short sigma grid, correlated parameter over a short vector guess) obeys the same three clauses. "
         "apply evaluates every error term at the requested frequency over the calibration's own grid with an interpolation order that follows from the "
         "calibration alone - not from how many frequencies the request holds (error_terms.*: apply frame of C01 with a recording _vnacal_rfi contract). "
         "The segment search of _vnacal_rfi is closed by DFCC loop contracts for any number of iterations "
         "(bracketing postcondition, termination). Exactness at the knots is proved for the spline evaluator "
         "(any coefficients) and for _vnacal_rfi with up to 4 knots and any hint: bounded in the number of "
         "knots. Interpolated values between knots: only a bounded set of concrete witnesses (tables of 1/(1+x) on 2, 3, 5 knots).",
    note="values between knots not covered; spline slope value (one double division) not examined; knots >= 1 mHz "
         "apart; the apply comparison is restated in the harness; complex compiled as double",
    design="DESIGN.md 3 C10, 8.2",
    technique="CBMC full-domain float contracts + DFCC loop contracts (_vnacal_rfi) + bounded knot harnesses",
)

CLAIMED["C16"] = dict(
    level="proof",
    text="The calibration slot vector and the parameter collection are verified as abstract tables: from ANY "
         "well-formed table (representation invariants wf_caltable / wf_params: unique names, index==slot, "
         "hold count = live + referrers + external holds, predefined handles permanent) each real operation "
         "(add/replace, delete, find, get_*, get_calibration_end, alloc/make_scalar/make_unknown, "
         "delete_parameter, release, teardown, get_parameter_value of a scalar) returns what the table model "
         "predicts, touches no other slot and re-establishes the invariant; hence for every call history. "
         "A handle solved before keeps exactly the grid and values of the LAST solve (solve_frame jobs of C11 re-run here). "
         "add_calibration may be given the replaced calibration's own name string; a handle resolves to ONE node of a calibration in progress, also after its hash grew (param_hash.grow_*). "
         "Bounded in table size (calibrations <= 8 slots + one growth step, parameters <= 8 slots with <= 4-5 live "
         "user handles).",
    note="bounded shapes; CORRELATED parameters and vnacal_new_t hash entries only as ghost external holds; "
         "vnaproperty_delete by contract stub; vector/solved parameter VALUES are C10's rfi obligations",
    design="DESIGN.md 3 C16, 8.3",
    technique="CBMC contract harnesses (table invariants + whole-table postconditions) on the real functions",
)
CLAIMED["C11"] = dict(
    level="proof",
    text="(1) The real _vnaerr_verror is proved against the error-reporting contract all other harnesses assume: "
         "errno class by category, user callback exactly once iff set, also when vasprintf fails - full domain. "
         "(2) The six validating setters carry DFCC function contracts (requires/ensures/assigns) enforced on the "
         "unmodified bodies: accepted iff the argument is valid, one EINVAL report otherwise, and - by the checked "
         "assigns clause - nothing else in the object written. (3) 'Refused calls leave the object observably "
         "unchanged' and 'returned indices are the ones the queries honour' are postconditions of the C15/C16 "
         "harnesses, re-run here for vnadata_resize/init/set_type/cell/frequency/z0 setters and the vnacal "
         "calibration/parameter tables.  (4) solve_frame: the real vnacal_new_solve / _vnacal_new_solve_internal "
         "(with _init, _start_frequency, _free, convert_ue14_to_e12, calibration alloc/free) around assumed contracts "
         "of the per-frequency numeric solvers: every failing exit returns -1 with exactly one report and leaves the "
         "earlier result (same pointer, still allocated, same contents) and the standards in place; a successful solve "
         "installs one well-shaped calibration; retry and the frees are clean - for T8/UE14/E12/TE10, 1x1 and 2x2, "
         "with/without earlier result, unknown parameter, m_error, TRL route; all values and solver outcomes symbolic.",
    note="file loaders/savers (stdio) not covered; the numeric solvers themselves are assumed contracts in (4); NaN "
         "arguments to the double-valued setters not specified",
    design="DESIGN.md 3 C11, 8.4",
    technique="CBMC: full-domain contract on _vnaerr_verror + DFCC enforce-contract on setters + refusal postconditions",
)

CLAIMED["C04"] = dict(
    level="proof",
    text="All 72 two-port conversions and the 9 two-port input-impedance functions are parsed from the repository "
         "files on every run and executed symbolically (sequential memory semantics); for each the generated "
         "verification conditions - every port state satisfying the input representation's defining relation of "
         "vnaconv(3) satisfies the output's with the computed matrix (complex, unequal z0, K_i = 1/sqrt|Re z_i|), "
         "in-place call equals out-of-place call (for the Zin functions: the vector laid over the input matrix, as vnadata_convert "
         "does in place), converting back returns the original, Zin_k = v_k/i_k with the "
         "other port terminated, and DOM: the code divides only by quantities that are nonzero for Re z0 > 0 or vanish "
         "only inside the singular set of the conversion it computes (zero set of the reduced result's denominators), "
         "so no input of the conversion's domain is lost to an intermediate form - are discharged by sympy as "
         "rational-function identities over exact complex arithmetic: a proof for all inputs off the singular set, in "
         "exact arithmetic.  Nested vnaconv_* calls are executed from the callee's own repository text.  The 9 n-port functions are "
         "executed by a small C interpreter over the same repository text (loops, VLAs, index macros; linear kernels "
         "by exact contract): symbolic proof at n = 1 and n = 2, including agreement with the two-port function at "
         "n = 2; at n = 3 (and 4 in thorough) only exact-rational INSTANCES with structured z0 patterns (polynomial "
         "identity testing) - labelled bounded, not proof."
         " A data-dependent branch in an n-port function (if (cabs(det) < eps) ...) is not refused as outside the subset: both "
         "outcomes are enumerated and every path must satisfy the relation; an obligation failing on such a path is reported "
         "only with an input of the REAL function (ctypes) that breaks the relation, otherwise the run is undecided (exit 2).",
    note="exact arithmetic instead of IEEE-754; n >= 3 by instances only; linear kernels by contract (their "
         "numerics: C19); the verifier here is sympy on generated VCs, not CBMC (CBMC cannot decide double-complex "
         "arithmetic, DESIGN 1)",
    design="DESIGN.md 2.2 E5, 3 C04, 8.6",
    technique="generated verification conditions from the parsed real function bodies, discharged by sympy",
)

CLAIMED["C05"] = dict(
    level="proof",
    text="The real vnadata_convert is verified with each of the 90 vnaconv_* functions replaced by a recording "
         "contract generated from vnaconv.h: for every accepted (from,to) pair the function invoked is the one "
         "NAMED for that pair, once per frequency, on that frequency's matrices, with that frequency's reference "
         "impedances of the input (ordinary or per-frequency); refused type/dimension combinations leave the "
         "output bitwise-view unchanged with one EINVAL report; frequencies, impedances, z0 mode, precisions and "
         "file type are carried over; the result is a well-formed object, which includes that after conversion to "
         "Zin (in place or not) every cell beyond 1 x ports holds its initial value.  In-place runs have both "
         "types symbolic over the whole 11x11 table; out-of-place runs enumerate type pairs.  The other half of the in-place clause - "
         "each of the 12 Zin functions gives the same result when its output vector lies over its input matrix - is the AL obligation "
         "of the C04 generator, re-run here (alias_zin).",
    note="bounded shapes (<=3x3, <=2 frequencies); what the vnaconv functions compute is C04; vnadata_set_format "
         "by stub; A->B->C == A->C not checked here; shared C15 assumptions",
    design="DESIGN.md 3 C05, 8.8",
    technique="CBMC contract harness on the real vnadata_convert with generated recording contracts",
)
CLAIMED["C12"] = dict(
    level="fault_enumeration",
    text="For each scripted history the number K of allocations made by library code is measured natively on the "
         "same harness, and EVERY index k = 1..K is failed once (counted malloc/calloc/realloc/strdup wrapper "
         "injected with -D, no source change); each k is one CBMC proof run with symbolic values checking: no "
         "memory-safety violation, documented failure value, errno ENOMEM, one SYSTEM error report, object well "
         "formed afterwards, the repeated call succeeds silently, the history ends in the fault-free state, and "
         "nothing remains allocated after the free functions.  The property-tree scripts include the non-idempotent forms "
         "(list[+].x=v, list[0+].x=v): a call that fails after the element was added takes it out again, so the repeat does not add a second one.  "
         "vnacal_new_unknown: a standard that introduces an unknown parameter, failed at any allocation, leaves no parameter behind (count, list, anchor, hash) and the repeat registers it once; "
         "vnadata_format: the default format installed by save / load fails cleanly.",
    note="quick tier scripts: vnadata (alloc, init, setters incl. both z0 mode switches, resize grow/shrink, free), "
         "vnacal_new (create, new_alloc, add_single_reflect_m, free; K=21), addcal (replace by name, grow the "
         "table), vnacal (create, make_scalar/vector/unknown, delete, free; K=11), vnacal_corr (the same plus make_correlated; K=15); thorough adds add_frequency "
         "(0->50 allocation step); every run also proves that its injected fault was reached; a/b forms, solve, save/load are outside",
    design="DESIGN.md 2.2 E4, 3 C12, 8.7",
    technique="exhaustive single-allocation-fault enumeration, one CBMC proof run per fault index",
)
CLAIMED["C13"] = dict(
    level="proof",
    text="The container layer of the property tree (static functions of vnaproperty.c, reached by including the "
         "translation unit) is verified against abstract views: lists from ANY well-formed list of allocation 0 "
         "or 8 (including completely full) for subscript/insert/append/delete/count with the whole-sequence "
         "postcondition (children before kept, after shifted, slack slots null, deleted subtree freed); maps by "
         "every 3-step set/get/delete sequence from the empty map over keys chosen to share a hash bucket, "
         "against an insertion-ordered model, with no leak on failed lookups; map_compare_keys carries a full-domain function "
         "contract (sign of the result = sign of the (hash value, key) comparison: a total order, loop-free proof).  vnaproperty_quote_key against the real "
         "scanner: for keys of 1-2 bytes (3 in thorough) with one representative byte per scanner character class at "
         "each position (every one-byte key in thorough) the quoted key scans as exactly one identifier whose text is "
         "the original key, with nothing after it.  The descriptor parser on a SAMPLE of concrete descriptors (set, get, "
         "get_subtree, delete, copy; trailing tokens, syntax error, missing key, type mismatch, nested maps, key order, "
         "quoted and escaped keys with trailing spaces, empty containers): documented errno, refused calls change nothing, "
         "copy preserves empty maps and lists, no leak; a set without a value, a value for a map/list expression and a "
         "set_subtree with trailing tokens are refused BEFORE the path is forced into the tree (cases 13, 14).",
    note="descriptor language only sampled (12 concrete histories), vnacal_property_* wrappers not covered; "
         "<ctype.h> by a C-locale table model; vasprintf by contract (formats without conversions); bounded sizes",
    design="DESIGN.md 3 C13, 8.5",
    technique="CBMC contract harnesses on the static container functions (sequence / ordered-map views)",
)

CLAIMED["C01"] = dict(
    level="proof",
    text="PARTIAL (structural links only). (0) cell mapping of _vnacal_new_add_common along real histories: a two-port "
         "standard with an abbreviated 2x2 measurement matrix and any port order on a 3x3 calibration lands on the "
         "sorted ports' M cells and on S cells map[a],map[b]; connected/unconnected cells hold the zero parameter. "
         "(0b) the per-calibration parameter collection (hash_expand/lookup/insert, _vnacal_new_get_parameter) keeps its "
         "representation invariant and resolves every handle - VNACAL_ZERO above all - to the one node created for it, "
         "also after the table has grown with a colliding handle present (node identity with vn_zero is how known-zero "
         "cells are recognised). "
         "(0c) which standards contribute a leakage sample to which cell (ports not connected THROUGH the standard) and its "
         "value, for the leakage types on 3 ports; (0d) deleted handles are refused by vnacal_new_add_* while recorded uses "
         "and referrers keep working. "
         "(1) _vnacal_layout carries a DFCC function contract: for all 9 error-term "
         "types and dimensions 1..8 the sub-matrix regions plus outside leakage terms partition [0, error_terms) "
         "and every region has the size documented by the header's own VL_*_ROWS/COLUMNS macros (full, diagonal or "
         "per-column). (2) The matrices vnacal_apply hands to the linear solver for T8, TE10 and T16 calibrations "
         "are proved cell by cell to be A = Ts - M'Tx, B = M'Tm - Ti with the leakage term of exactly that cell "
         "subtracted, on the function text extracted from vnacal_apply.c each run and compiled over the ring Z/256. "
         "The same for the U forms (fill_u8 for U8/UE10, fill_ue14; fill_u16 in thorough): A = Ux M + Us, B = Um M + Ui.  "
         "(3) The frame of vnacal_apply_m around recording contracts of _vnacal_rfi and the linear kernels: terms "
         "interpolated once per requested frequency, the documented system of THAT frequency handed to the documented "
         "kernel (T: mldivide, U/E12: mrdivide), the solution stored at the same frequency and cell, singular systems "
         "reported, empty requests read nothing.  "
         "With the assumed kernel contract (solve returns the solution) this gives S = (Ts - M Tx)^-1 (M Tm - Ti) resp. "
         "S = (Um M + Ui)(Ux M + Us)^-1 in exact arithmetic for those types.  A calibration without frequencies refuses every request without reading its empty vector (cal0).  The m and the a/b "
         "form of through / line / mapped matrix hand the common funnel the same description (entry_points.*, job of C17).",
    note="NOT covered: equation term generation, solve, "
         "fill_e12 (divisions), rfi values between knots, accuracy.  The end-to-end numerical statement of C01 is "
         "out of reach of contract verification with CBMC; a numerical defect that keeps indices intact is invisible",
    design="DESIGN.md 3 C01, 8.9",
    technique="DFCC function contract (_vnacal_layout) + ring-substituted cell-wise contracts on extracted fill_t8/fill_t16 + CBMC contract harnesses (cell map, parameter hash)",
)
CLAIMED["C07"] = dict(
    level="proof",
    text="PARTIAL: the writing side.  (a) The frame of vnacal_save on the real code over a recording model of libyaml's "
         "document functions and a marker contract for sprintf: one entry per calibration in table order (also past an "
         "empty slot), name, dimensions and frequency count as stored, the reference impedance and every error term written "
         "with the data precision, every frequency with the frequency precision, one data entry per frequency, the file "
         "closed once, saving under the object's own file name is safe.  (b) 'For every precision value the setters accept': the static number formatters of "
         "vnacal_save.c (add_integer, add_double, add_complex) are verified, for every precision >= 1 and every "
         "double, to write inside their buffers, against a length-exact sprintf contract; controls show the buffers "
         "suffice up to precision 26 / 25.  The unbounded runs expose a genuine stack overflow (recorded as known "
         "findings, demo under findings/).  Property trees: the exporter writes every map key in the quoted form that the importer's "
         "descriptor parser maps back to exactly that key (properties.export_keys: real _vnaproperty_yaml_export on a recording document model).",
    note="the LOADING side (libyaml parser events, legacy versions), property trees in the file and bit-exactness of the "
         "digits are outside this technique and NOT decided; libyaml document/emitter functions by a recording model, "
         "sprintf by assumed length / marker contracts, stdio assumed to succeed",
    design="DESIGN.md 3 C07, 8.10",
    technique="CBMC contract harnesses: real vnacal_save over a recording libyaml document model; static formatters with a length-exact sprintf contract",
)
CLAIMED["C17"] = dict(
    level="proof",
    text="NARROW, two clauses.  (1) build_connectivity_matrix equals its specification - ports connected iff in the "
         "same block of S, the closure of 'S_ij or S_ji not known zero' - for EVERY zero pattern on 3 ports (2-4 in "
         "thorough), so the block structure does not depend on the port numbering (the combinatorial core of the "
         "renumbering clause).  (2) 'a through equals the line (0,1;1,0) equals the corresponding mapped matrix', for "
         "both the a/b and the m forms: with the body of the common funnel _vnacal_new_add_common removed from the "
         "compiled unit and replaced by a recording contract, the three entry points are proved to hand the funnel "
         "field-for-field identical descriptions (dimensions, matrix pointers, the four S parameters, the port map, "
         "flags) for all argument values - a complete, loop-free proof.  Parameters created earlier in the same vnacal_t change nothing: "
         "a handle >= 8 resolves to the one node created for it after the hash table has grown (param_hash.grow_* of C01 re-run here).",
    note="order of standards, a/b scaling, frequencies together vs apart, E12 vs UE14, port renumbering, full vs "
         "abbreviated matrices are numerical or depend on the funnel's body: NOT covered",
    design="DESIGN.md 3 C17, 8.11",
    technique="CBMC: entry points compared through a recording contract on the common funnel",
)

CLAIMED["C03"] = dict(
    level="proof",
    text="PARTIAL.  The memory-safety (bounds, pointer validity, use-after-free, double free, signed overflow) and "
         "leak obligations CBMC generates for the real functions under contract are discharged from ANY well-formed "
         "object with invalid arguments included (indices -1, n, n+1, dead handles, full containers), for: vnadata "
         "(cells, matrices, z0 modes, resize, add_frequency, free, in-place convert), the vnacal calibration and "
         "parameter tables incl. vnacal_free and teardown, property lists/maps, spline and rfi kernels, and the save "
         "formatters within ordinary precisions, vnacal_new_add_* scenarios (12 entry/shape combinations, 0 frequencies), "
         "_vnacal_new_solve_update_s_matrices with unspecified cells.  Invariant preservation (C15/C16/C13) extends this to every history "
         "of those operations, within the stated shape bounds.  Round 10 added: a standard added after an EMPTY frequency vector, apply on a "
         "calibration without frequencies, T16/U16 with an m matrix larger than the calibration, add_calibration under the replaced "
         "calibration's own name string, the V-matrix helpers without V matrices.",
    note="NOT covered: the numeric solvers, save/load bodies, YAML, descriptor parser, floating-point UB, "
         "zero-length memcpy/memset with NULL; see DESIGN 8.12",
    design="DESIGN.md 3 C03, 8.12",
    technique="CBMC standard checks + memory-leak check on the contract harnesses (invariants give all histories)",
)

CLAIMED["C20"] = dict(
    level="proof",
    text="PARTIAL (counting clause).  On real vnacal_new_t objects built through the real API (vnacal_create, "
         "vnacal_new_alloc, set_frequency_vector, add_single_reflect_m) for T8, U8, TE10, UE10, UE14, E12 "
         "(2x2; more shapes in thorough) with symbolic measured values: the per-system equation counts, their sum "
         "and maximum and the standard count equal the list lengths after every accepted standard; a refused "
         "standard (invalid, dead or negative handle) adds nothing; with fewer equations than unknown error terms "
         "vnacal_new_solve fails with exactly one MATH/EDOM report, installs no calibration, leaves the accumulated "
         "standards untouched (so adding the missing ones and solving again is admissible) and leaks nothing - "
         "with and without the measurement-error model; the same holds for E12/UE14 when only ONE column system is "
         "short of equations while another has enough, whatever the linear kernels return (assumed contract: any rank "
         "<= min(m,n), any determinant); unknown standard parameters count as unknowns (real _vnacal_new_solve_auto around "
         "kernel contracts); the TRL short-cut test classifies any three standards without touching unspecified S cells.  A minimal set of standards "
         "with a noise model has no V matrices: the auto solver's save/restore helpers cope (v_matrices.*) and the consistency test has nothing "
         "to reject (pvalue_df0 of C18); the connectivity closure that decides which cells of a multi-port standard give equations is C17's "
         "job re-run here; a refused standard leaves no parameter behind (hash count, hold count, unknown list).",
    note="histories from a fresh object on concrete small shapes, not an arbitrary well-formed object; 'every "
         "determining set solves and corrects exactly' (numerical rank/accuracy), solve_auto/TRL: NOT covered",
    design="DESIGN.md 3 C20, 8.16",
    technique="CBMC contract harnesses on real add/solve histories (count invariant, EDOM, unchanged object, no leak)",
)

CLAIMED["C18"] = dict(
    level="proof",
    text="NARROW (deterministic clauses only).  On real vnacal_new_t histories (2x2; UE14 and T8 quick, all six "
         "system-solving types thorough): (a) vnacal_new_set_m_error with both vectors NULL disables the model "
         "(vector freed, no V matrices allocated: unweighted path); (b) the weight vector entry of the g-th "
         "equation, in the order the solvers enumerate equations across ALL systems, is 1/sqrt(nf^2 + tr^2|m_g|^2) "
         "computed from that equation's own measured cell (pairwise distinct measurements decide the indexing; "
         "sqrt by an identity stand-in); (c) _vnacal_new_solve_simple weights every coefficient and right-hand "
         "side of an equation with that equation's own weight (marker weights, recording kernel). Noise vectors on "
         "their own grid pass through the given points: C10.  Without degrees of freedom (exactly determined system) "
         "the consistency test rejects nothing: the p-value is 1 for any solved terms (pvalue_df0).  The real _vnacal_new_solve_update_v_matrices "
         "recomputes, for the system being solved, the V matrix of every standard that has one - also when another column system has none (update_v.*).",
    note="rejection rates, exact-data equivalence, outliers (statistics) are outside contract verification; "
         "solve_auto's use of the weights is not checked; concrete small histories",
    design="DESIGN.md 3 C18, 8.17",
    technique="CBMC contract harnesses on the real weight computation / assembly with marker and recording contracts",
)

CLAIMED["C19"] = dict(
    level="proof",
    text="NARROW (structural clauses of the LU kernel; backward stability itself is not decidable here).  On the "
         "real _vnacommon_lu: the pivot of a column is the row largest relative to its own row maximum (scaled "
         "partial pivoting, the documented row_scale rule) - exhaustively for all 256 2x2 matrices over "
         "{1,2,3,100}; multiplying rows by powers of two (2^-30..2^30) leaves the pivot sequence unchanged for a "
         "2x2 and a 3x3 witness matrix (the 3x3 one displaces the scaled row by a swap); row_index is a permutation; for every finite 2x2 matrix with a zero first column or row the "
         "returned determinant is 0 or non-normal, so the call sites' singularity test fires (full double domain); and the "
         "a/b -> m reduction of vnacal_new_add_* (kernel by assumed contract returning ANY determinant) refuses a zero or "
         "NaN determinant with one MATH/EDOM report and records nothing, else stores the solution of frequency f at f.  "
         "The UE14 -> E12 conversion divides by every Um entry: with all terms symbolic, an exactly zero one is reported (EDOM) and never divided by (e12_convert.*).",
    note="residual size, QR orthogonality, least-squares minimality, n > 2, 'astronomically large output', and that "
         "the determinant tests of solve_simple/solve_auto: NOT covered (apply: C01 apply_frame); complex compiled as double",
    design="DESIGN.md 3 C19, 8.18",
    technique="CBMC contract harnesses on the real _vnacommon_lu (pivot rule, row-scaling invariance, zero pivot)",
)

NA = {
    "C02": "iterative floating-point convergence (Levenberg-Marquardt / TRL) has no contract CBMC can discharge; see DESIGN.md 3 C02",
    "C06": "property is about bytes written by fprintf and read by an independent reader; no CBMC model of formatted I/O (a stub would be the oracle); DESIGN.md 3 C06",
    "C08": "quantifies over file contents consumed through FILE*/strtod; no CBMC model, byte-bounded stand-in too short to hold a well-formed file; DESIGN.md 3 C08",
    "C09": "parsers over stdio and libyaml events; outside the reach of contract verification with the installed tools; DESIGN.md 3 C09",
    "C14": "behaviour of libyaml's emitter/parser (external dependency without contract); DESIGN.md 3 C14",
}

NOT_YET = {
}
for k in CLAIMED:
    NOT_YET.pop(k, None)


def main():
    checks = []
    for pid in sorted(CLAIMED):
        c = CLAIMED[pid]
        checks.append(dict(
            property_id=pid,
            quick_cmd="./check %s --tier quick" % pid,
            thorough_cmd="./check %s --tier thorough" % pid,
            evidence_file="/verif/evidence/%s.json" % pid,
            replay_cmd_template="cat {path}",
            engine=("slvc" if pid == "C04" else "cbmc-contracts"),
            level_claimed=dict(category=c["level"], text=c["text"], design_ref=c["design"]),
            level_note=c["note"],
            technique=c["technique"],
        ))
    na = [dict(property_id=k, reason=v) for k, v in sorted({**NA, **NOT_YET}.items())]
    hooks_commits = []
    hc = os.path.join(VERIF, "hooks-commits.txt")
    if os.path.exists(hc):
        hooks_commits = [l.split()[0] for l in open(hc) if l.strip() and not l.startswith("#")]
    m = dict(
        version=1,
        setup_cmd="./setup.sh",
        hooks=dict(
            guard="LIBVNA_VERIF",
            enable="checks compile /repo/src/*.c with goto-cc -DLIBVNA_VERIF -DHAVE_CONFIG_H (no build-system change); "
                   "the ordinary build never defines it",
            baseline_off_cmd="make -C /repo -j8 >/dev/null 2>&1; make -C /repo/src/tests -j8 check",
            source_commits=hooks_commits,
            add_only=False,
        ),
        engines=[
            dict(name="cbmc-contracts", path="/verif/lib/vdriver.py",
                 serves_properties=sorted(CLAIMED),
                 kind_free_text="CBMC 6.11 (goto-cc, goto-instrument --dfcc, cbmc) on the real translation units of "
                                "/repo/src; contracts as harness pre/postconditions over abstract views and "
                                "representation invariants, DFCC function/loop contracts where stated; native "
                                "ASan/UBSan replay of counterexamples"),
            dict(name="slvc", path="/verif/slvc/slvc.py", serves_properties=["C04"],
                 kind_free_text="straight-line VC generator: parses the real vnaconv_* two-port bodies each run, "
                                "symbolic execution with sequential memory, obligations discharged by sympy; "
                                "numeric witness replayed on the real functions via ctypes"),
        ],
        checks=checks,
        not_applicable=na,
        notes="Exit codes: 0 held / 1 VIOLATION / 2 infrastructure problem (never reported as violation). "
              "known-findings.txt lists repaired (fixed:) and open (known:) defects.",
    )
    with open(os.path.join(VERIF, "MANIFEST.json"), "w") as f:
        json.dump(m, f, indent=1)
    print("MANIFEST.json: %d checks, %d not applicable" % (len(checks), len(na)))


if __name__ == "__main__":
    main()

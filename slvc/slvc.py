#!/usr/bin/env python3-vt
"""
slvc -- straight-line verification-condition generator for the two-port
vnaconv_* functions (property C04).

For every function file /repo/src/vnaconv_<x>to<y>.c (x,y in s t u z y h g a b)
and vnaconv_<x>tozi.c the body is PARSED from the repository text (no
hand-written copy): const declarations, the local `#define X11 x[0][0]`
aliases and assignments, with expression grammar
    + - * / unary-minus ( ) literals identifiers a[i][j] a[i]
    conj() creal() fabs() sqrt()
Anything else (a loop, a branch, an unknown call) aborts with exit 2.

The body is executed symbolically with SEQUENTIAL MEMORY SEMANTICS over the
field Q(i)(symbols); the obligations are

  R   relation:   every port state (v1,i1,v2,i2) that satisfies the defining
                  relation of the INPUT representation satisfies the defining
                  relation of the OUTPUT representation with the matrix the
                  code computed   (vnaconv(3) definitions, complex z0,
                  K_i = 1/sqrt|Re z_i|, Re z_i > 0)
  AL  aliasing:   executing with the output array bound to the input array's
                  memory yields the same result expressions
  RT  round trip: g(f(X)) == X for the inverse function g (also parsed)
  ZI  (x->zi):    with the other port terminated in its z0 (a_other = 0),
                  v_k == zi[k] * i_k

decided by sympy (cancel/expand to the zero polynomial: a decision procedure
for rational-function identities).  Model: exact complex arithmetic in place
of IEEE-754 doubles.
"""
import json
import multiprocessing as mp
import os
import re
import sys
import time

import sympy as sp

VERIF = os.path.dirname(os.path.dirname(os.path.abspath(__file__)))
REPO = os.environ.get("VERIF_REPO", "/repo")
SRC = os.path.join(REPO, "src")
TYPES = "stuzyhgab"
I = sp.Symbol('J')      # the imaginary unit as a plain symbol; J**2 + 1 is reduced away in is_zero()


class ParseError(Exception):
    pass


# ---------------------------------------------------------------------------
# tokenizer / expression parser
# ---------------------------------------------------------------------------
TOK = re.compile(r"\s*(?:(\d+\.\d*(?:[eE][-+]?\d+)?|\.\d+|\d+)|([A-Za-z_]\w*)|(.))")


def tokenize(text):
    out = []
    pos = 0
    text = text.strip()
    while pos < len(text):
        m = TOK.match(text, pos)
        if not m:
            raise ParseError("cannot tokenize %r" % text[pos:pos + 20])
        pos = m.end()
        if m.group(1):
            out.append(("num", m.group(1)))
        elif m.group(2):
            out.append(("id", m.group(2)))
        elif m.group(3).strip():
            out.append(("op", m.group(3)))
    return out


class Exec:
    """symbolic machine state: memory cells, locals, macro aliases"""

    def __init__(self, arrays, alias_out_to=None):
        self.mem = {}          # (array, i, j) -> expr
        self.locals = {}
        self.macros = {}
        self.arrays = arrays   # name -> kind ('in' | 'out' | 'z0' | 'zi')
        self.alias = alias_out_to   # (outname, inname) or None
        self.reads_after_write = []
        self.divisors = []     # every expression the code divides by, in program order

    def cell(self, name, idx):
        if self.alias and name == self.alias[0]:
            name = self.alias[1]
            if len(idx) == 1:       # a vector output laid over the matrix storage: element k is cell (k / 2, k % 2)
                idx = (idx[0] // 2, idx[0] % 2)
        return (name,) + tuple(idx)

    def read(self, name, idx):
        c = self.cell(name, idx)
        if c not in self.mem:
            raise ParseError("read of unknown cell %r" % (c,))
        return self.mem[c]

    def write(self, name, idx, val):
        self.mem[self.cell(name, idx)] = val


class Parser:
    def __init__(self, toks, ex):
        self.t = toks
        self.i = 0
        self.ex = ex

    def peek(self):
        return self.t[self.i] if self.i < len(self.t) else ("end", "")

    def next(self):
        tok = self.peek()
        self.i += 1
        return tok

    def expect(self, v):
        tok = self.next()
        if tok[1] != v:
            raise ParseError("expected %r got %r" % (v, tok))

    def expr(self):
        v = self.term()
        while self.peek() in (("op", "+"), ("op", "-")):
            op = self.next()[1]
            r = self.term()
            v = v + r if op == "+" else v - r
        return v

    def term(self):
        v = self.unary()
        while self.peek() in (("op", "*"), ("op", "/")):
            op = self.next()[1]
            r = self.unary()
            if op == "/":
                self.ex.divisors.append(r)
            v = v * r if op == "*" else v / r
        return v

    def unary(self):
        if self.peek() == ("op", "-"):
            self.next()
            return -self.unary()
        if self.peek() == ("op", "+"):
            self.next()
            return self.unary()
        return self.atom()

    def index_list(self):
        idx = []
        while self.peek() == ("op", "["):
            self.next()
            tok = self.next()
            if tok[0] != "num":
                raise ParseError("non-constant index")
            idx.append(int(tok[1]))
            self.expect("]")
        return idx

    def atom(self):
        tok = self.next()
        if tok[0] == "num":
            return sp.Rational(tok[1]) if "." not in tok[1] and "e" not in tok[1].lower() \
                else sp.nsimplify(tok[1], rational=True)
        if tok == ("op", "("):
            v = self.expr()
            self.expect(")")
            return v
        if tok[0] == "id":
            name = tok[1]
            if self.peek() == ("op", "("):
                self.next()
                a = self.expr()
                self.expect(")")
                return apply_fn(name, a)
            if name in self.ex.macros:
                sub = Parser(self.ex.macros[name], self.ex)
                v = sub.atom_ref_value()
                return v
            if name in self.ex.arrays:
                idx = self.index_list()
                return self.ex.read(name, idx)
            if name in self.ex.locals:
                return self.ex.locals[name]
            raise ParseError("unknown identifier %s" % name)
        raise ParseError("unexpected token %r" % (tok,))

    def atom_ref_value(self):
        tok = self.next()
        if tok[0] == "id" and tok[1] in self.ex.arrays:
            return self.ex.read(tok[1], self.index_list())
        raise ParseError("macro does not name an array cell")

    def lvalue(self):
        tok = self.next()
        if tok[0] != "id":
            raise ParseError("bad lvalue")
        name = tok[1]
        if name in self.ex.macros:
            sub = Parser(self.ex.macros[name], self.ex)
            t2 = sub.next()
            return t2[1], sub.index_list()
        if name in self.ex.arrays:
            return name, self.index_list()
        raise ParseError("assignment to %s" % name)


# conj / creal / fabs / sqrt on the symbolic representation ------------------
def apply_fn(name, a):
    if name == "conj":
        return conj_expr(a)
    if name == "creal":
        return sp.cancel((a + conj_expr(a)) / 2)
    if name == "fabs":
        return a            # only ever applied to creal(z_i) = q_i**2 > 0 (checked in sqrt)
    if name == "sqrt":
        for q in (q1, q2):
            if sp.expand(a - q ** 2) == 0:
                return q
        raise ParseError("sqrt of something other than |Re z_i|: %s" % a)
    raise ParseError("unknown function %s" % name)


def conj_expr(e):
    # matrix entries are never conjugated in the two-port functions; z0 entries are q^2 + J x
    bad = [s_ for s_ in e.free_symbols if str(s_).startswith("m_")]
    if bad:
        raise ParseError("conj applied to a matrix entry")
    return e.subs(I, -I)


# ---------------------------------------------------------------------------
# extraction of one function body from the repository file
# ---------------------------------------------------------------------------
def extract(fname):
    path = os.path.join(SRC, fname + ".c")
    text = open(path).read()
    m = re.search(r"^void\s+" + re.escape(fname) + r"\s*\((.*?)\)\s*\{(.*?)^\}", text, re.S | re.M)
    if not m or len(re.findall(r"^void\s+" + re.escape(fname) + r"\s*\(", text, re.M)) != 1:
        raise ParseError("extraction rule did not fire exactly once in %s" % path)
    return m.group(1), m.group(2), text[m.start():m.end()]


def split_args(text):
    out, depth, cur = [], 0, ""
    for ch in text:
        if ch == "," and depth == 0:
            out.append(cur)
            cur = ""
            continue
        depth += ch in "([" 
        depth -= ch in ")]"
        cur += ch
    out.append(cur)
    return [a.strip() for a in out]


def run_function(fname, inputs, alias=False, divs=None, depth=0):
    """returns dict of output cells -> expr; inputs: dict cell->expr for input arrays;
    divs (list) collects every divisor, including those of nested vnaconv_* calls"""
    if depth > 3:
        raise ParseError("call nesting too deep in %s" % fname)
    sig, body, _ = extract(fname)
    body = re.sub(r"/\*.*?\*/", " ", body, flags=re.S)
    params = []
    for p in sig.split(","):
        p = " ".join(p.split())
        mm = re.match(r"(const )?double complex (\(\*(\w+)\)\[2\]|\*(\w+))$", p)
        if not mm:
            raise ParseError("unexpected parameter %r in %s" % (p, fname))
        params.append((mm.group(3) or mm.group(4), bool(mm.group(1)), bool(mm.group(3))))
    arrays = {}
    inname = outname = None
    for name, is_const, is_mat in params:
        if is_const and is_mat:
            arrays[name] = "in"
            inname = name
        elif is_const:
            arrays[name] = "z0"
        else:
            arrays[name] = "out"
            outname = name
    ex = Exec(arrays, alias_out_to=(outname, inname) if alias else None)
    if divs is not None:
        ex.divisors = divs
    for c, v in inputs.items():
        k = c[0]
        nm = inname if k == "in" else \
            next((n for n, kind in arrays.items() if kind == "z0"), None) if k == "z0" else None
        if nm is None:
            continue
        ex.mem[(nm,) + c[1:]] = v
    # statements
    lines = []
    for raw in body.split("\n"):
        s = raw.strip()
        if s.startswith("#define"):
            mm = re.match(r"#define\s+(\w+)\s+(.*)$", s)
            ex.macros[mm.group(1)] = tokenize(mm.group(2))
            continue
        if s.startswith("#undef") or not s:
            continue
        if s.startswith("#"):
            raise ParseError("unexpected preprocessor line %r" % s)
        lines.append(s)
    for stmt in " ".join(lines).split(";"):
        stmt = stmt.strip()
        if not stmt:
            continue
        if re.match(r"(for|while|if|switch|goto|return|do)\b", stmt):
            raise ParseError("control flow in %s: %r" % (fname, stmt[:40]))
        mm = re.match(r"const double( complex)? (\w+)\s*=\s*(.*)$", stmt, re.S)
        if mm:
            p = Parser(tokenize(mm.group(3)), ex)
            v = p.expr()
            if p.peek()[0] != "end":
                raise ParseError("trailing tokens in %r" % stmt[:60])
            ex.locals[mm.group(2)] = v
            continue
        mm = re.match(r"double complex (\w+)((?:\[2\]){1,2})$", stmt)
        if mm:          # local scratch array: cells are undefined until written
            if mm.group(1) in arrays:
                raise ParseError("local %s shadows a parameter" % mm.group(1))
            arrays[mm.group(1)] = "local"
            continue
        mm = re.match(r"(vnaconv_[a-z]to(?:[a-z]|zi))\s*\((.*)\)$", stmt, re.S)
        if mm:          # nested two-port conversion: executed from ITS repository text on the caller's memory
            callee = mm.group(1)
            args = [re.sub(r"^\(\s*const\s+double\s+complex\s*\(\*\)\s*\[2\]\s*\)\s*", "", a_) for a_ in split_args(mm.group(2))]
            if not all(a_ in arrays for a_ in args) or len(args) not in (2, 3):
                raise ParseError("unsupported call arguments in %r" % stmt[:60])
            cin, cout = ex.cell(args[0], ())[0], ex.cell(args[1], ())[0]
            sub_in = {}
            for c_, v_ in ex.mem.items():
                if c_[0] == cin:
                    sub_in[("in",) + c_[1:]] = v_
                if len(args) == 3 and c_[0] == args[2]:
                    sub_in[("z0",) + c_[1:]] = v_
            res, _, _ = run_function(callee, sub_in, alias=(cin == cout), divs=ex.divisors, depth=depth + 1)
            if arrays.get(args[1]) not in ("out", "local"):
                raise ParseError("call writes to non-output %s" % args[1])
            for c_, v_ in res.items():
                ex.write(args[1], list(c_), v_)
            continue
        if "=" not in stmt:
            raise ParseError("unexpected statement %r" % stmt[:60])
        lhs, rhs = stmt.split("=", 1)
        pl = Parser(tokenize(lhs), ex)
        name, idx = pl.lvalue()
        if arrays.get(name) not in ("out", "local"):
            raise ParseError("write to non-output %s" % name)
        pr = Parser(tokenize(rhs), ex)
        v = pr.expr()
        if pr.peek()[0] != "end":
            raise ParseError("trailing tokens in %r" % stmt[:60])
        ex.write(name, idx, v)
    out = {}
    tgt = inname if alias else outname
    for c, v in ex.mem.items():
        if c[0] == tgt and (alias or True):
            out[c[1:]] = v
    if not alias:
        out = {c[1:]: v for c, v in ex.mem.items() if c[0] == outname}
    return out, outname, any(k == "z0" for k in arrays.values())


# ---------------------------------------------------------------------------
# the defining relations of vnaconv(3)
# ---------------------------------------------------------------------------
q1, q2, x1, x2 = sp.symbols("q1 q2 x1 x2")   # Re z_i = q_i^2 (> 0), Im z_i = x_i
Z = [q1 ** 2 + I * x1, q2 ** 2 + I * x2]
ZC = [q1 ** 2 - I * x1, q2 ** 2 - I * x2]
K = [1 / q1, 1 / q2]
v1, i1, v2, i2 = sp.symbols("v1 i1 v2 i2")
A_ = [K[0] / 2 * (v1 + Z[0] * i1), K[1] / 2 * (v2 + Z[1] * i2)]
B_ = [K[0] / 2 * (v1 - ZC[0] * i1), K[1] / 2 * (v2 - ZC[1] * i2)]


def relation(t, M):
    """two expressions that vanish exactly when the state satisfies the type-t relation for matrix M"""
    a1, a2 = A_
    b1, b2 = B_
    L = {
        "s": ([b1, b2], [a1, a2]),
        "t": ([b1, a1], [a2, b2]),
        "u": ([a2, b2], [b1, a1]),
        "z": ([v1, v2], [i1, i2]),
        "y": ([i1, i2], [v1, v2]),
        "h": ([v1, i2], [i1, v2]),
        "g": ([i1, v2], [v1, i2]),
        "a": ([v1, i1], [v2, -i2]),
        "b": ([v2, -i2], [v1, i1]),
    }[t]
    lhs, rhs = L
    return [lhs[0] - (M[(0, 0)] * rhs[0] + M[(0, 1)] * rhs[1]),
            lhs[1] - (M[(1, 0)] * rhs[0] + M[(1, 1)] * rhs[1])]


def is_zero(e):
    n, d = sp.fraction(sp.cancel(sp.together(e)))
    n = sp.expand(n)
    if n == 0:
        return True
    if n.has(I):
        n = sp.rem(sp.Poly(n, I), sp.Poly(I ** 2 + 1, I)).as_expr()
        return sp.expand(n) == 0
    return False


def jreduce(e):
    """polynomial e reduced modulo J**2 + 1"""
    e = sp.expand(e)
    if e.has(I):
        e = sp.expand(sp.rem(sp.Poly(e, I), sp.Poly(I ** 2 + 1, I)).as_expr())
    return e


def z0_factor_nonzero(f):
    """f depends on q1, q2, x1, x2 only: is it nonzero for every q_i > 0 and real x_i?  (sufficient test:
    its real or its imaginary part is a polynomial in the q_i alone whose coefficients all have one sign)"""
    f = jreduce(f)
    for part in (f.subs(I, 0), sp.expand((f - f.subs(I, 0)) / I)):
        part = sp.expand(part)
        if part != 0 and part.free_symbols <= {q1, q2}:
            cs = sp.Poly(part, q1, q2).coeffs()
            if all(c > 0 for c in cs) or all(c < 0 for c in cs):
                return True
    return False


def dom_obligation(out, divs):
    """DOM: the code divides only by quantities that vanish nowhere on the domain of the conversion it computes.
    The conversion is the rational map out(m, z0) in lowest terms; its singular set is the zero set of the
    reduced denominators D.  Every irreducible factor f of every divisor's numerator must be nonzero for
    Re z0 > 0, or vanish only inside {D = 0}: decided by eliminating a variable in which f is linear and
    testing D == 0 on f == 0.  Returns (ok, text)."""
    D = sp.Integer(1)
    for v in out.values():
        D = sp.lcm(D, sp.fraction(sp.cancel(sp.together(v)))[1])
    seen = set()
    msyms = [sp.Symbol("m_%d%d" % (r + 1, c + 1)) for r in range(2) for c in range(2)]
    for d in divs:
        num = sp.fraction(sp.cancel(sp.together(d)))[0]
        for f, _mult in sp.factor_list(num)[1]:
            key = sp.srepr(f)
            if key in seen:
                continue
            seen.add(key)
            fs = f.free_symbols - {I}
            if not fs:
                if jreduce(f) == 0:
                    return False, "division by the constant zero", None
                continue
            if fs <= {q1, q2, x1, x2}:
                if z0_factor_nonzero(f):
                    continue
                return False, "divisor factor %s can vanish for reference impedances with Re z0 > 0" % f, None
            lin = [v_ for v_ in msyms + [x1, x2] if v_ in fs and sp.Poly(f, v_).degree() == 1]
            if not lin:
                raise ParseError("DOM: divisor factor %s is linear in no variable" % f)
            v_ = lin[0]
            root = sp.solve(f, v_)[0]
            if not is_zero(D.subs(v_, root)):
                return False, ("the code divides by %s, which vanishes at inputs where the conversion is defined "
                               "(spurious singularity: the reduced result has denominator %s)" % (f, sp.factor(D))), \
                    dict(var=str(v_), root=str(root))
    return True, None, None


def input_env():
    m = {(r, c): sp.Symbol("m_%d%d" % (r + 1, c + 1)) for r in range(2) for c in range(2)}
    env = {("in", r, c): m[(r, c)] for r in range(2) for c in range(2)}
    env[("z0", 0)] = Z[0]
    env[("z0", 1)] = Z[1]
    return m, env


def verify_function(fname):
    """returns list of obligation dicts"""
    t0 = time.time()
    mm = re.fullmatch(r"vnaconv_([a-z])to([a-z]|zi)", fname)
    X, Y = mm.group(1), mm.group(2)
    obs = []
    try:
        M, env = input_env()
        divs = []
        out, outname, has_z0 = run_function(fname, env, divs=divs)
        sha = __import__("hashlib").sha256(extract(fname)[2].encode()).hexdigest()[:16]
        # solve the input relation for two state variables
        rin = relation(X, M)
        sol = None
        for pair in ((v1, v2), (i1, i2), (v1, i2), (i1, v2), (v1, i1), (v2, i2)):
            try:
                s = sp.solve([sp.expand(e_) for e_ in rin], pair, dict=True)
            except Exception:
                s = []
            if s and len(s) == 1 and all(p in s[0] for p in pair):
                sol = s[0]
                break
        if sol is None:
            raise ParseError("cannot solve the input relation of type %s" % X)
        if Y == "zi":
            for k in (0, 1):
                other_a = A_[1 - k]
                vk, ik = (v1, i1) if k == 0 else (v2, i2)
                # restrict to states with the other port terminated: a_other = 0
                free = [s_ for s_ in (v1, i1, v2, i2) if s_ not in sol]
                cons = sp.solve(sp.together(other_a.subs(sol)), free[0], dict=True)
                if not cons:
                    raise ParseError("cannot impose the termination condition")
                st = {k_: sp.simplify(v_.subs(cons[0])) for k_, v_ in sol.items()}
                st[free[0]] = cons[0][free[0]]
                res = (vk - out[(k,)] * ik).subs(st)
                res = res.subs(st)
                ok = is_zero(res)
                obs.append(dict(function=fname, obligation="ZI[%d]" % k, ok=bool(ok),
                                residual=None if ok else str(sp.simplify(res))[:400]))
            # aliasing: the Zin vector written over the input matrix's own storage (what vnadata_convert does in place)
            out2, _, _ = run_function(fname, env, alias=True)
            same = all(is_zero(out2[(k // 2, k % 2)] - out[(k,)]) for k in (0, 1))
            obs.append(dict(function=fname, obligation="AL", ok=bool(same),
                            residual=None if same else "result differs when zi is laid over the input matrix (in-place call)"))
        else:
            OM = {(r, c): out[(r, c)] for r in range(2) for c in range(2)}
            rout = relation(Y, OM)
            for n_, e in enumerate(rout):
                res = e.subs(sol)
                ok = is_zero(res)
                obs.append(dict(function=fname, obligation="R[%d]" % n_, ok=bool(ok),
                                residual=None if ok else str(sp.simplify(res))[:400]))
            # aliasing
            out2, _, _ = run_function(fname, env, alias=True)
            same = all(is_zero(out2[c] - out[c]) for c in out)
            obs.append(dict(function=fname, obligation="AL", ok=bool(same), residual=None if same else "aliased result differs"))
            # round trip
            inv = "vnaconv_%sto%s" % (Y, X)
            env2 = {("in", r, c): out[(r, c)] for r in range(2) for c in range(2)}
            env2[("z0", 0)] = Z[0]
            env2[("z0", 1)] = Z[1]
            back, _, _ = run_function(inv, env2)
            okrt = all(is_zero(back[(r, c)] - M[(r, c)]) for r in range(2) for c in range(2))
            obs.append(dict(function=fname, obligation="RT(%s)" % inv, ok=bool(okrt),
                            residual=None if okrt else "round trip differs"))
        okd, why, wit = dom_obligation(out, divs)
        obs.append(dict(function=fname, obligation="DOM", ok=bool(okd), residual=why, divisors=len(divs), dom_witness=wit))
        for o in obs:
            o["sha"] = sha
            o["seconds"] = round(time.time() - t0, 2)
    except ParseError as e:
        obs.append(dict(function=fname, obligation="PARSE", ok=None, residual=str(e), seconds=round(time.time() - t0, 2)))
    except Exception as e:  # pragma: no cover
        obs.append(dict(function=fname, obligation="INTERNAL", ok=None, residual=repr(e)[:300], seconds=round(time.time() - t0, 2)))
    return obs


def nport_task(t):
    import nport
    f, n, seed, pat = t
    t0 = time.time()
    kind = "symbolic" if seed is None else "exact-rational-instance(seed=%s,z0-pattern=%s)" % (seed, pat)
    try:
        r = nport.verify(f, n, seed, pat)
        return [dict(function=f, obligation="n=%d %s %s" % (n, name, kind), ok=bool(ok), nport=True, bounded=seed is not None,
                     residual=None if ok else "n-port obligation failed", seconds=round(time.time() - t0, 2)) for name, ok in r]
    except nport.Abort as e:
        return [dict(function=f, obligation="n=%d PARSE" % n, ok=None, residual=str(e), seconds=0)]
    except Exception as e:  # pragma: no cover
        return [dict(function=f, obligation="n=%d INTERNAL" % n, ok=None, residual=repr(e)[:300], seconds=0)]


def all_functions():
    fs = []
    for x in TYPES:
        for y in TYPES:
            if x != y:
                fs.append("vnaconv_%sto%s" % (x, y))
        fs.append("vnaconv_%stozi" % x)
    return fs


def numeric_witness(fname, lib):
    """random numeric point: call the real function and evaluate the relation residuals"""
    import ctypes
    import random
    import numpy as np
    rnd = random.Random(12345)
    mm = re.fullmatch(r"vnaconv_([a-z])to([a-z]|zi)", fname)
    X, Y = mm.group(1), mm.group(2)
    L = ctypes.CDLL(lib)
    sig, _, _ = extract(fname)
    has_z0 = "z0" in sig
    for _ in range(20):
        Min = np.array([[complex(rnd.uniform(-1, 1), rnd.uniform(-1, 1)) for _ in range(2)] for _ in range(2)])
        z0 = np.array([complex(rnd.uniform(20, 100), rnd.uniform(-30, 30)) for _ in range(2)])
        out = np.zeros((2, 2) if Y != "zi" else (2,), dtype=complex)
        args = [Min.ctypes.data_as(ctypes.c_void_p), out.ctypes.data_as(ctypes.c_void_p)]
        if has_z0:
            args.append(z0.ctypes.data_as(ctypes.c_void_p))
        getattr(L, fname)(*args)
        if Y == "zi":
            continue
        # numeric version of the relation test: pick two states in the X solution space
        M, _env = input_env()
        subsM = {M[(r, c)]: Min[r, c] for r in range(2) for c in range(2)}
        subsZ = {q1: abs(z0[0].real) ** 0.5, q2: abs(z0[1].real) ** 0.5, x1: z0[0].imag, x2: z0[1].imag, I: sp.I}
        rin = [e.subs(subsM).subs(subsZ) for e in relation(X, M)]
        free = (v1, v2)
        sol = sp.solve(rin, (i1, i2), dict=True)
        if not sol:
            continue
        st = {v1: 1.0 + 0.5j, v2: -0.3 + 0.2j}
        st.update({k: complex(sp.N(v.subs(st))) for k, v in sol[0].items()})
        OM = {(r, c): complex(out[r, c]) for r in range(2) for c in range(2)}
        res = [abs(complex(sp.N(e.subs(subsZ).subs(st)))) for e in relation(Y, OM)]
        if max(res) > 1e-6:
            return dict(input=[[str(c) for c in row] for row in Min.tolist()], z0=[str(c) for c in z0],
                        state={str(k): str(v) for k, v in st.items()}, residual=max(res))
    return None


def dom_witness_on_real_code(fname, lib, wit):
    """a concrete input ON the zero set of the spurious divisor: the real function returns NaN/inf or a wrong
    value there although the conversion it implements is defined (value from the reduced symbolic result)"""
    import ctypes
    import random
    import numpy as np
    rnd = random.Random(4242)
    L = ctypes.CDLL(lib)
    sig, _, _ = extract(fname)
    has_z0 = "z0" in sig
    Y = re.fullmatch(r"vnaconv_([a-z])to([a-z]|zi)", fname).group(2)
    M, env = input_env()
    sym, _, _ = run_function(fname, env)
    names = {str(M[k]): M[k] for k in M}
    names.update(q1=q1, q2=q2, x1=x1, x2=x2, J=I)
    var = names[wit["var"]]
    root = sp.sympify(wit["root"], locals=names)
    for _ in range(20):
        vals = {M[k]: sp.Rational(rnd.randint(-9, 9), rnd.randint(1, 5)) + I * sp.Rational(rnd.randint(-9, 9), rnd.randint(1, 5)) for k in M}
        vals.update({q1: sp.Integer(rnd.randint(4, 9)), q2: sp.Integer(rnd.randint(4, 9)),
                     x1: sp.Integer(rnd.randint(-20, 20)), x2: sp.Integer(rnd.randint(-20, 20))})
        other = {k: v for k, v in vals.items() if k != var}
        try:
            vals[var] = root.subs(other)
            num = {k: complex(sp.N(v.subs(I, sp.I))) for k, v in vals.items()}
            expect = {c: complex(sp.N(sp.cancel(sp.together(e)).subs(vals).subs(I, sp.I))) for c, e in sym.items()}
        except Exception:
            continue
        Min = np.array([[num[M[(r, c)]] for c in range(2)] for r in range(2)], dtype=complex)
        z0 = np.array([num[q1] ** 2 + 1j * num[x1].real, num[q2] ** 2 + 1j * num[x2].real], dtype=complex)
        out = np.zeros((2, 2) if Y != "zi" else (2,), dtype=complex)
        args = [Min.ctypes.data_as(ctypes.c_void_p), out.ctypes.data_as(ctypes.c_void_p)]
        if has_z0:
            args.append(z0.ctypes.data_as(ctypes.c_void_p))
        getattr(L, fname)(*args)
        got = {c: complex(out[c]) for c in expect}
        bad = [c for c in expect if not np.isfinite(got[c]) or abs(got[c] - expect[c]) > 1e-6 * (1 + abs(expect[c]))]
        if bad and all(np.isfinite(v) for v in expect.values()):
            return dict(input=[[str(c) for c in row] for row in Min.tolist()], z0=[str(c) for c in z0],
                        returned={str(c): str(got[c]) for c in got}, defined_value={str(c): str(expect[c]) for c in expect})
    return None


def alias_witness_on_real_code(fname, lib):
    """the real function called with the output laid over the input's storage vs. separate buffers"""
    import ctypes
    import random
    import numpy as np
    rnd = random.Random(777)
    L = ctypes.CDLL(lib)
    sig, _, _ = extract(fname)
    has_z0 = "z0" in sig
    Y = re.fullmatch(r"vnaconv_([a-z])to([a-z]|zi)", fname).group(2)
    for _ in range(10):
        Min = np.array([[complex(rnd.uniform(-2, 2), rnd.uniform(-2, 2)) for _ in range(2)] for _ in range(2)])
        z0 = np.array([complex(rnd.uniform(20, 100), rnd.uniform(-30, 30)) for _ in range(2)])
        sep = np.zeros((2, 2) if Y != "zi" else (2,), dtype=complex)
        a1 = [Min.copy().ctypes.data_as(ctypes.c_void_p), sep.ctypes.data_as(ctypes.c_void_p)]
        buf = Min.copy()
        a2 = [buf.ctypes.data_as(ctypes.c_void_p), buf.ctypes.data_as(ctypes.c_void_p)]
        if has_z0:
            a1.append(z0.ctypes.data_as(ctypes.c_void_p))
            a2.append(z0.ctypes.data_as(ctypes.c_void_p))
        keep = Min.copy()
        a1[0] = keep.ctypes.data_as(ctypes.c_void_p)
        getattr(L, fname)(*a1)
        getattr(L, fname)(*a2)
        got = buf.reshape(-1)[:sep.size]
        want = sep.reshape(-1)
        if not np.all(np.isfinite(want)):
            continue
        if np.max(np.abs(got - want)) > 1e-9 * (1 + np.max(np.abs(want))):
            return dict(input=[[str(c) for c in row] for row in Min.tolist()], z0=[str(c) for c in z0],
                        separate_buffers=[str(c) for c in want], same_buffer=[str(c) for c in got])
    return None


def build_shared_lib():
    import subprocess
    wd = os.path.join(VERIF, "build", "C04")
    os.makedirs(wd, exist_ok=True)
    lib = os.path.join(wd, "libvnaconv.so")
    srcs = [os.path.join(SRC, f) for f in os.listdir(SRC) if re.fullmatch(r"vnaconv_\w+\.c|vnacommon_\w+\.c", f)]
    p = subprocess.run(["cc", "-shared", "-fPIC", "-O0", "-DHAVE_CONFIG_H", "-I" + REPO, "-I" + SRC] + srcs +
                       ["-lm", "-o", lib], stdout=subprocess.PIPE, stderr=subprocess.PIPE, text=True)
    return lib if p.returncode == 0 else None


def main():
    import argparse
    ap = argparse.ArgumentParser()
    ap.add_argument("--tier", default="quick")
    ap.add_argument("--only", default=None)
    ap.add_argument("--as-property", default=None,
                    help="re-run the aliasing (AL) obligations under another property id: no evidence file, summary line on stdout")
    a = ap.parse_args()
    PID = a.as_property or "C04"
    t0 = time.time()
    fs = all_functions()
    if a.only:
        fs = [f for f in fs if re.search(a.only, f)]
    with mp.Pool(int(os.environ.get("VERIF_JOBS", "16"))) as pool:
        res = pool.map(verify_function, fs, chunksize=1)
    obs = [o for r in res for o in r]
    # ---- n-port functions (nport.py): symbolic at n = 1, 2; exact rational instances at n = 3 (4 in thorough)
    import nport
    ntasks = []
    for f in nport.all_functions():
        if a.only and not re.search(a.only, f):
            continue
        ntasks += [(f, 1, None, None), (f, 2, None, None)]
        pats3 = [None, (0, 0, 0), (0, 1, 0), (0, 0, 2), (0, 1, 1)]
        for k, pt in enumerate(pats3):
            ntasks.append((f, 3, 100 + k, pt))
        if a.tier != "quick":
            for k, pt in enumerate([None, (0, 1, 2, 0), (0, 1, 1, 0), (0, 0, 2, 2)]):
                ntasks.append((f, 4, 200 + k, pt))
    with mp.Pool(int(os.environ.get("VERIF_JOBS", "16"))) as pool:
        nres = pool.map(nport_task, ntasks, chunksize=1)
    obs += [o for r in nres for o in r]
    if a.as_property:
        # keep the in-place obligations (and anything that prevented them from being generated)
        obs = [o for o in obs if o["ok"] is None or re.search(r"(^| )AL( |$)", o["obligation"])]
    infra = [o for o in obs if o["ok"] is None]
    failed = [o for o in obs if o["ok"] is False]
    good = [o for o in obs if o["ok"]]
    vio_lines = []
    if failed:
        rdir = os.path.join(VERIF, "replay", PID)
        os.makedirs(rdir, exist_ok=True)
        lib = build_shared_lib()
        byf = {}
        undecided = []
        for o in failed:
            byf.setdefault(o["function"], []).append(o)
        for f, os_ in sorted(byf.items()):
            wit = None
            try:
                wit = numeric_witness(f, lib) if (lib and re.fullmatch(r"vnaconv_[a-z]to([a-z]|zi)", f)) else None
                if wit is None and lib and all(" path=" in o["obligation"] for o in os_):
                    # every failing obligation lies on a data-dependent path of an n-port function: it counts only
                    # with an input of the real code that breaks the relation (an infeasible path proves nothing)
                    wit = nport.path_witness_on_real_code(f, lib)
                    if wit is None:
                        for o in os_:
                            o["ok"] = None
                            o["residual"] = "obligation fails on a data-dependent path (%s) and no sampled input of the real code breaks the relation: undecided" % o["obligation"]
                        undecided.append(f)
                        continue
                if wit is None and lib:
                    for o in os_:
                        if o.get("dom_witness"):
                            wit = dom_witness_on_real_code(f, lib, o["dom_witness"])
                        elif o["obligation"] == "AL" and re.fullmatch(r"vnaconv_[a-z]to([a-z]|zi)", f):
                            wit = alias_witness_on_real_code(f, lib)
            except Exception as e:  # pragma: no cover
                wit = None
            path = os.path.join(rdir, f + ".json")
            with open(path, "w") as fp:
                json.dump(dict(property=PID, function=f, failed_obligations=os_, numeric_witness_on_real_code=wit,
                               verifier="slvc (sympy %s)" % sp.__version__), fp, indent=1)
            vio_lines.append("VIOLATION property=%s replay=%s obligation=%s:%s%s" % (
                PID, path, f, os_[0]["obligation"], "" if wit else " no-failing-input-found"))
    infra = [o for o in obs if o["ok"] is None]
    failed = [o for o in obs if o["ok"] is False]
    ev = dict(
        property_id="C04", tier=a.tier, seed=int(os.environ.get("VERIF_SEED", "0") or 0), level="proof",
        coverage=dict(
            obligations=len(obs) - len(infra), discharged=len(good),
            checker_cmd="python3-vt /verif/slvc/slvc.py --tier %s" % a.tier,
            trusted_base=["sympy %s (cancel/expand as decision procedure for rational-function identities)" % sp.__version__,
                          "slvc parser/symbolic executor (/verif/slvc/slvc.py)",
                          "transcription of the vnaconv(3) defining relations in slvc.relation()"],
            functions_under_contract=sorted(set(o["function"] for o in obs)),
            functions=len(fs), backend="sympy %s" % sp.__version__,
            solver_s=round(sum(o.get("seconds", 0) for o in obs), 1),
            samples=[dict(function=o["function"], obligation=o["obligation"], ok=o["ok"], extraction_sha256_16=o.get("sha"))
                     for o in obs[:12]],
            infrastructure_problems=[o["function"] + ": " + str(o["residual"]) for o in infra],
            nport_obligations=len([o for o in obs if o.get("nport")]),
            nport_bounded_obligations=len([o for o in obs if o.get("bounded")]),
            nport_note="n-port functions: symbolic proof at n = 1, 2 (incl. agreement with the two-port function at n = 2); at n = 3 (and 4 in thorough) exact-rational INSTANCES with structured z0 patterns (equal / first==last / all distinct ...): polynomial identity testing, labelled bounded, not proof",
            evaluations=len(fs), distinct_nontrivial=len(fs),
            rule="one evaluation = one two-port function, parsed from the repository and verified symbolically",
            technique="generated VCs over exact complex arithmetic, discharged by sympy",
        ),
        assumptions=["exact complex arithmetic instead of IEEE-754 (machine arithmetic treated as mathematical)",
                     "inputs away from the zero set of the printed denominators; Re z0 > 0",
                     "linear kernels (_vnacommon_mldivide/mrdivide/minverse) by exact contract (X = A^-1 B etc.); their numerics are C19",
                     "n >= 3: instances only (bounded); numerical behaviour at singular inputs is not covered"],
        wall_s=round(time.time() - t0, 1), violations=len(failed))
    if a.as_property:
        print("SLVC-SUMMARY " + json.dumps(dict(obligations=len(obs) - len(infra), discharged=len(good),
                                                functions=sorted(set(o["function"] for o in obs)),
                                                solver_s=round(sum(o.get("seconds", 0) for o in obs), 1))))
    else:
        os.makedirs(os.path.join(VERIF, "evidence"), exist_ok=True)
        json.dump(ev, open(os.path.join(VERIF, "evidence", "C04.json"), "w"), indent=1)
    print("C04 tier=%s functions=%d obligations=%d discharged=%d wall=%.0fs" % (a.tier, len(fs), len(obs) - len(infra), len(good), time.time() - t0))
    for o in infra:
        print("INFRA: %s: %s" % (o["function"], o["residual"]))
    for ln in vio_lines:
        print(ln)
    for o in failed[:40]:
        print("  failed: %s %s :: %s" % (o["function"], o["obligation"], o["residual"]))
    if failed:
        return 1
    if infra or not good:
        return 2
    return 0


if __name__ == "__main__":
    sys.exit(main())

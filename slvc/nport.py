#!/usr/bin/env python3-vt
"""
nport -- symbolic execution of the n-port vnaconv_* functions (C04, second
part).  The function bodies are parsed from the repository files; the C
subset accepted is exactly what those nine functions use:

    if (n <= 0) return;                       (n is a concrete positive int here)
    double complex a[n * n]; double ki[n];    VLA declarations
    const double complex x = EXPR;            scalar declarations
    #define A(i, j) (a[(i) * n + (j)])        function-like index macros
    for (int i = 0; i < n; ++i) { ... }       counted loops
    if (i != j) { ... }  if (flag) { ... }    integer / bool conditions
    bool flag; flag = (ki[i] != ki[0]);       bool / int scalars (=, |=)
    lvalue (=|+=|-=|*=) EXPR;                 assignments to array cells
    (void)memcpy((void *)u, (void *)z, n * n * sizeof(double complex));
    _vnacommon_mldivide(x, a, b, m, n)        by CONTRACT: X = A^-1 B   (exact)
    _vnacommon_mrdivide(x, b, a, m, n)        by CONTRACT: X = B A^-1   (exact)
    _vnacommon_minverse(x, a, n)              by CONTRACT: X = A^-1     (exact)

Anything else aborts (exit 2).  Arithmetic is exact (sympy / rationals);
pointer parameters may be bound to the same memory (aliasing obligation).
"""
import os
import re
import sys

import sympy as sp

HERE = os.path.dirname(os.path.abspath(__file__))
sys.path.insert(0, HERE)
import slvc  # noqa: E402

J = slvc.I


class Abort(Exception):
    pass


class Fork(Exception):
    """a data-dependent condition was met for which the caller has not fixed a decision yet"""
    pass


CABS = sp.Function("cabs")


def _symbolic(x):
    return isinstance(x, sp.Basic) and bool(x.free_symbols or x.has(CABS))


def tokenize(text):
    toks = []
    for m in re.finditer(r"\s*(?:(\d+\.\d*|\.\d+|\d+)|([A-Za-z_]\w*)|(\+\+|--|<=|>=|==|!=|\+=|-=|\*=|/=|\|=|&&|\|\||.))", text, re.S):
        if m.group(1):
            toks.append(("num", m.group(1)))
        elif m.group(2):
            toks.append(("id", m.group(2)))
        elif m.group(3) and m.group(3).strip():
            toks.append(("op", m.group(3)))
    return toks


class Machine:
    def __init__(self, n, arrays, zsyms):
        self.n = n
        self.arr = arrays       # name -> python list (shared lists model aliasing)
        self.scal = {"n": n}
        self.macros = {}        # name -> (params, token list)
        self.zsyms = zsyms      # list of (q, x) per port for sqrt/creal handling
        self.decisions = []     # outcomes fixed by the caller for the data-dependent conditions, in order of occurrence
        self.path = []          # (condition, outcome) for every data-dependent condition met


class Interp:
    def __init__(self, toks, m):
        self.t = toks
        self.i = 0
        self.m = m

    # ------------------------------------------------------------- token helpers
    def peek(self, k=0):
        return self.t[self.i + k] if self.i + k < len(self.t) else ("end", "")

    def next(self):
        tok = self.peek()
        self.i += 1
        return tok

    def accept(self, v):
        if self.peek()[1] == v:
            self.i += 1
            return True
        return False

    def expect(self, v):
        tok = self.next()
        if tok[1] != v:
            raise Abort("expected %r, got %r" % (v, tok))

    # ------------------------------------------------------------- statements
    def block(self):
        """executes statements until the matching '}' (or end)"""
        while self.peek()[0] != "end" and self.peek()[1] != "}":
            self.statement()

    def skip_block_tokens(self):
        """returns the token slice of a { ... } block or a single statement, advancing past it"""
        start = self.i
        if self.accept("{"):
            depth = 1
            while depth:
                tok = self.next()
                if tok[0] == "end":
                    raise Abort("unterminated block")
                if tok[1] == "{":
                    depth += 1
                elif tok[1] == "}":
                    depth -= 1
            return self.t[start + 1:self.i - 1]
        while self.next()[1] != ";":
            pass
        return self.t[start:self.i]

    def statement(self):
        tok = self.peek()
        if tok == ("id", "if"):
            self.next()
            self.expect("(")
            cond = self.expr()
            self.expect(")")
            body = self.skip_block_tokens()
            if self.peek() == ("id", "else"):
                raise Abort("else branch")
            if _symbolic(cond):
                # data-dependent branch: the caller enumerates both outcomes (Fork), every path is verified
                k = len(self.m.path)
                if k >= len(self.m.decisions):
                    raise Fork()
                taken = bool(self.m.decisions[k])
                self.m.path.append((cond, taken))
                cond = taken
            if body and body[0] == ("id", "return"):
                if cond:
                    raise Abort("early return taken")
                return
            if not isinstance(cond, (bool, int)):
                raise Abort("non-integer condition")
            if cond:
                Interp(body, self.m).block()
            return
        if tok == ("id", "for"):
            self.next()
            self.expect("(")
            self.expect("int")
            var = self.next()[1]
            self.expect("=")
            lo = self.expr()
            self.expect(";")
            cstart = self.i
            depth = 0
            while not (self.peek()[1] == ";" and depth == 0):
                self.next()
            cond_toks = self.t[cstart:self.i]
            self.expect(";")
            if not (self.accept("++") and self.next()[1] == var):
                raise Abort("unsupported loop increment")
            self.expect(")")
            body = self.skip_block_tokens()
            k = lo
            guard = 0
            while True:
                self.m.scal[var] = k
                if not Interp(cond_toks, self.m).expr():
                    break
                Interp(body, self.m).block()
                k += 1
                guard += 1
                if guard > 64:
                    raise Abort("loop does not terminate")
            del self.m.scal[var]
            return
        if tok[1] == "(" and self.peek(1) == ("id", "void") and self.peek(3) == ("id", "memcpy"):
            # (void)memcpy((void *)dst, (void *)src, n * n * sizeof(double complex));
            self.i += 4
            self.expect("(")
            self.expect("("); self.expect("void"); self.expect("*"); self.expect(")")
            dst = self.next()[1]
            self.expect(",")
            self.expect("("); self.expect("void"); self.expect("*"); self.expect(")")
            src = self.next()[1]
            self.expect(",")
            while self.next()[1] != ";":
                pass
            d, s_ = self.m.arr[dst], self.m.arr[src]
            for k in range(self.m.n * self.m.n):
                d[k] = s_[k]
            return
        if tok[0] == "id" and tok[1] in ("_vnacommon_mldivide", "_vnacommon_mrdivide", "_vnacommon_minverse"):
            self.next()
            self.expect("(")
            args = []
            while True:
                args.append(self.next()[1])
                if self.accept(")"):
                    break
                self.expect(",")
            self.expect(";")
            self.kernel(tok[1], args)
            return
        if tok[0] == "id" and tok[1] in ("bool", "int"):
            self.next()
            name = self.next()[1]
            v = 0
            if self.accept("="):
                v = self.expr()
            self.expect(";")
            self.m.scal[name] = v
            return
        if tok[0] == "id" and tok[1] in ("double", "const"):
            # declarations
            self.accept("const")
            self.expect("double")
            self.accept("complex")
            name = self.next()[1]
            if self.accept("["):
                size = self.expr()
                self.expect("]")
                self.expect(";")
                self.m.arr[name] = [None] * int(size)
                return
            self.expect("=")
            v = self.expr()
            self.expect(";")
            self.m.scal[name] = v
            return
        if tok[0] == "id" and tok[1] in self.m.scal and tok[1] not in self.m.arr and \
                tok[1] not in self.m.macros and self.peek(1)[1] in ("=", "|="):
            name = self.next()[1]
            op = self.next()[1]
            if op == "|=":
                self.expect("=") if False else None
            v = self.expr()
            self.expect(";")
            if not isinstance(v, (bool, int)):
                raise Abort("scalar assignment of a non-integer value")
            self.m.scal[name] = (bool(self.m.scal[name]) or bool(v)) if op == "|=" else v
            return
        # assignment
        cell = self.lvalue()
        op = self.next()[1]
        rhs = self.expr()
        self.expect(";")
        arr, idx = cell
        cur = arr[idx]
        if op == "=":
            arr[idx] = rhs
        elif cur is None:
            raise Abort("read of uninitialised cell")
        elif op == "+=":
            arr[idx] = cur + rhs
        elif op == "-=":
            arr[idx] = cur - rhs
        elif op == "*=":
            arr[idx] = cur * rhs
        else:
            raise Abort("unsupported assignment operator %r" % op)

    def kernel(self, name, args, want_det=False):
        n = self.m.n
        A = lambda nm: sp.Matrix(n, n, list(self.m.arr[nm]))  # noqa: E731
        if name == "_vnacommon_mldivide":
            x, a, b = args[0], args[1], args[2]
            X = A(a).LUsolve(A(b))
        elif name == "_vnacommon_mrdivide":
            x, b, a = args[0], args[1], args[2]
            X = (A(a).T.LUsolve(A(b).T)).T
        else:
            x, a = args[0], args[1]
            X = A(a).inv(method="LU")
        det = sp.factor(A(a).det(method="berkowitz")) if want_det else None
        out = self.m.arr[x]
        for k in range(n * n):
            out[k] = sp.cancel(X[k])
        return det

    def lvalue(self):
        tok = self.next()
        if tok[0] != "id":
            raise Abort("bad lvalue %r" % (tok,))
        name = tok[1]
        if name in self.m.macros:
            return self.macro_cell(name)
        if name in self.m.arr:
            self.expect("[")
            idx = self.expr()
            self.expect("]")
            return self.m.arr[name], int(idx)
        raise Abort("assignment to %s" % name)

    def macro_cell(self, name):
        params, body = self.m.macros[name]
        self.expect("(")
        args = []
        for k in range(len(params)):
            args.append(self.expr())
            if k + 1 < len(params):
                self.expect(",")
        self.expect(")")
        saved = dict(self.m.scal)
        for p, a in zip(params, args):
            self.m.scal[p] = a
        sub = Interp(body, self.m)
        sub.accept("(")
        arr = sub.next()[1]
        sub.expect("[")
        idx = sub.expr()
        sub.expect("]")
        self.m.scal.clear()
        self.m.scal.update(saved)
        return self.m.arr[arr], int(idx)

    # ------------------------------------------------------------- expressions
    def expr(self):
        v = self.cmp()
        return v

    def cmp(self):
        v = self.add()
        while self.peek()[1] in ("<", "<=", ">", ">=", "==", "!="):
            op = self.next()[1]
            r = self.add()
            if op in ("==", "!="):
                eq = sp.simplify(sp.sympify(v) - sp.sympify(r)) == 0
                v = eq if op == "==" else not eq
            elif _symbolic(v) or _symbolic(r):
                v = {"<": sp.Lt, "<=": sp.Le, ">": sp.Gt, ">=": sp.Ge}[op](sp.sympify(v), sp.sympify(r), evaluate=False)
            else:
                v = bool({"<": v < r, "<=": v <= r, ">": v > r, ">=": v >= r}[op])
        return v

    def add(self):
        v = self.mul()
        while self.peek()[1] in ("+", "-"):
            op = self.next()[1]
            r = self.mul()
            v = v + r if op == "+" else v - r
        return v

    def mul(self):
        v = self.unary()
        while self.peek()[1] in ("*", "/"):
            op = self.next()[1]
            r = self.unary()
            if op == "*":
                v = v * r
            else:
                v = sp.Rational(v, r) if isinstance(v, int) and isinstance(r, int) else v / r
        return v

    def unary(self):
        if self.accept("-"):
            return -self.unary()
        return self.atom()

    def atom(self):
        tok = self.next()
        if tok[0] == "num":
            return int(tok[1]) if tok[1].isdigit() else sp.nsimplify(tok[1], rational=True)
        if tok[1] == "(":
            v = self.expr()
            self.expect(")")
            return v
        if tok[0] == "id":
            name = tok[1]
            if name in ("conj", "creal", "fabs", "sqrt"):
                self.expect("(")
                a = self.expr()
                self.expect(")")
                if name == "conj":
                    if not hasattr(a, "subs"):
                        return a
                    return a.subs(J, -J) if a.has(J) else sp.conjugate(a)
                if name == "creal":
                    c_ = a.subs(J, -J) if a.has(J) else sp.conjugate(a)
                    return sp.nsimplify(sp.cancel((a + c_) / 2)) if not a.free_symbols else sp.cancel((a + c_) / 2)
                if name == "fabs":
                    return a
                if getattr(a, "is_number", False):
                    r = sp.sqrt(a)
                    if r.is_Rational:
                        return r
                    raise Abort("sqrt of a non-square number")
                for q, _x in self.m.zsyms:
                    if sp.expand(a - q ** 2) == 0:
                        return q
                raise Abort("sqrt of something other than |Re z0|")
            if name == "cabs":
                self.expect("(")
                a = self.expr()
                self.expect(")")
                return CABS(a) if _symbolic(a) else sp.Abs(sp.sympify(a).subs(J, sp.I))
            if name == "DBL_EPSILON":
                return sp.Rational(1, 2 ** 52)
            if name == "NAN":
                return sp.nan
            if name in ("_vnacommon_mldivide", "_vnacommon_mrdivide", "_vnacommon_minverse"):
                # kernel called for its value: the determinant of the system matrix
                self.expect("(")
                args = []
                while True:
                    args.append(self.next()[1])
                    if self.accept(")"):
                        break
                    self.expect(",")
                return self.kernel(name, args, want_det=True)
            if name in ("true", "false"):
                return name == "true"
            if name == "sizeof":
                raise Abort("sizeof outside memcpy")
            if name in self.m.macros:
                arr, idx = self.macro_cell(name)
                if arr[idx] is None:
                    raise Abort("read of uninitialised cell")
                return arr[idx]
            if name in self.m.arr:
                self.expect("[")
                idx = self.expr()
                self.expect("]")
                v = self.m.arr[name][int(idx)]
                if v is None:
                    raise Abort("read of uninitialised cell %s[%s]" % (name, idx))
                return v
            if name in self.m.scal:
                return self.m.scal[name]
            raise Abort("unknown identifier %s" % name)
        raise Abort("unexpected token %r" % (tok,))


def extract(fname):
    path = os.path.join(slvc.SRC, fname + ".c")
    text = open(path).read()
    m = re.search(r"^void\s+" + re.escape(fname) + r"\s*\((.*?)\)\s*\{(.*?)^\}", text, re.S | re.M)
    if not m or len(re.findall(r"^void\s+" + re.escape(fname) + r"\s*\(", text, re.M)) != 1:
        raise Abort("extraction rule did not fire exactly once in %s" % path)
    return m.group(1), m.group(2), text[m.start():m.end()]


def run(fname, n, inp, z0, alias=False, decisions=(), path_out=None):
    """returns the output array (list) after executing fname on input list `inp` (n*n) and z0 list;
    `decisions` fixes the outcomes of data-dependent conditions (Fork is raised when one is missing),
    the conditions met are appended to `path_out`"""
    sig, body, _ = extract(fname)
    body = re.sub(r"/\*.*?\*/", " ", body, flags=re.S)
    params = [" ".join(p.split()) for p in sig.split(",")]
    names = []
    for p in params:
        mm = re.match(r"(const )?(double complex \*|int )(\w+)$", p)
        if not mm:
            raise Abort("unexpected parameter %r" % p)
        names.append((mm.group(3), bool(mm.group(1)), mm.group(2).strip()))
    in_name = names[0][0]
    out_name = names[1][0]
    outlen = n if fname.endswith("zin") else n * n
    inlist = list(inp)
    outlist = inlist if alias else [None] * outlen
    arrays = {in_name: inlist, out_name: outlist}
    zs = []
    if any(nm == "z0" for nm, _, _ in names):
        arrays["z0"] = list(z0)
    for k in range(n):
        zs.append((sp.Symbol("q%d" % (k + 1)), sp.Symbol("x%d" % (k + 1))))
    mach = Machine(n, arrays, zs)
    mach.decisions = list(decisions)
    # macros and statements
    lines = []
    for raw in body.split("\n"):
        s_ = raw.strip()
        if s_.startswith("#define"):
            mm = re.match(r"#define\s+(\w+)\(([^)]*)\)\s+(.*)$", s_)
            if not mm:
                raise Abort("unsupported macro %r" % s_)
            mach.macros[mm.group(1)] = ([p.strip() for p in mm.group(2).split(",")], tokenize(mm.group(3)))
            continue
        if s_.startswith("#undef") or not s_:
            continue
        if s_.startswith("#"):
            raise Abort("unexpected preprocessor line %r" % s_)
        lines.append(s_)
    Interp(tokenize(" ".join(lines)), mach).block()
    if path_out is not None:
        path_out.extend(mach.path)
    return arrays[out_name][:outlen]


def explore(fname, n, inp, z0):
    """every path through the function: list of (decisions, output, path conditions)"""
    done, todo = [], [()]
    while todo:
        d = todo.pop()
        path = []
        try:
            out = run(fname, n, inp, z0, decisions=d, path_out=path)
        except Fork:
            if len(d) >= 4:
                raise Abort("more than 4 nested data-dependent conditions")
            todo += [d + (True,), d + (False,)]
            continue
        done.append((d, out, path))
    return done


# ---------------------------------------------------------------------------
# obligations
# ---------------------------------------------------------------------------
def z0_syms(n):
    return [sp.Symbol("q%d" % (k + 1)) ** 2 + J * sp.Symbol("x%d" % (k + 1)) for k in range(n)]


def states(n):
    v = [sp.Symbol("v%d" % (k + 1)) for k in range(n)]
    i = [sp.Symbol("i%d" % (k + 1)) for k in range(n)]
    return v, i


def waves(n, v, i, z0):
    a, b = [], []
    for k in range(n):
        q = sp.Symbol("q%d" % (k + 1))
        zk = z0[k]
        zkc = zk.subs(J, -J) if zk.has(J) else sp.conjugate(zk)
        a.append((v[k] + zk * i[k]) / (2 * q))
        b.append((v[k] - zkc * i[k]) / (2 * q))
    return a, b


def relation(t, M, n, v, i, z0):
    a, b = waves(n, v, i, z0)
    lhs, rhs = {"s": (b, a), "z": (v, i), "y": (i, v)}[t]
    return [lhs[r] - sum(M[r * n + c] * rhs[c] for c in range(n)) for r in range(n)]


def verify(fname, n, numeric_seed=None, z0_pattern=None):
    """obligations for one n-port function at dimension n.
    numeric_seed None: fully symbolic (proof in exact arithmetic);
    otherwise the input matrix and z0 are exact random rationals (polynomial identity testing: bounded)."""
    import random
    mm = re.fullmatch(r"vnaconv_([szy])to(zi|[szy])n", fname)
    X, Y = mm.group(1), mm.group(2)
    v, i = states(n)
    if numeric_seed is None:
        M = [sp.Symbol("m_%d%d" % (r + 1, c + 1)) for r in range(n) for c in range(n)]
        z0 = z0_syms(n)
        sub = {}
    else:
        rnd = random.Random(numeric_seed)
        sub = {}
        M = [sp.Rational(rnd.randint(-9, 9), rnd.randint(1, 7)) + sp.I * sp.Rational(rnd.randint(-9, 9), rnd.randint(1, 7))
             for _ in range(n * n)]
        sub[J] = sp.I
        qs = [sp.Rational(rnd.randint(2, 9), rnd.randint(1, 3)) for _ in range(n)]
        xs = [sp.Rational(rnd.randint(-9, 9), rnd.randint(1, 3)) for _ in range(n)]
        for k in range(n):
            # z0_pattern[k] = index of the port whose Re z0 port k shares (structured instances)
            g = z0_pattern[k] if z0_pattern else k
            sub[sp.Symbol("q%d" % (k + 1))] = qs[g]
            sub[sp.Symbol("x%d" % (k + 1))] = xs[k]
        z0 = z0_syms(n)
    z0s = [sp.expand(z.subs(sub)) for z in z0]
    obs = []
    for (dec, out, path) in explore(fname, n, M, z0s):
        tag = ""
        if path:
            tag = " path=%s [%s]" % ("".join("T" if t else "F" for _c, t in path),
                                     "; ".join(("" if t else "not ") + str(c)[:80] for c, t in path))
        for name, ok in _verify_path(fname, n, X, Y, M, z0s, sub, v, i, out, dec, numeric_seed):
            obs.append((name + tag, ok))
    return obs


def _verify_path(fname, n, X, Y, M, z0s, sub, v, i, out, dec, numeric_seed):
    obs = []
    Msub = list(M)

    def zero(e):
        if getattr(e, "has", None) and e.has(sp.nan):
            return False
        e = sp.cancel(sp.together(e.subs(sub) if hasattr(e, "subs") else e))
        num = sp.expand(sp.fraction(e)[0])
        if num == 0:
            return True
        if num.has(J):
            num = sp.rem(sp.Poly(num, J), sp.Poly(J ** 2 + 1, J)).as_expr()
        return sp.expand(num) == 0

    rin = [e.subs(sub) for e in relation(X, Msub, n, v, i, z0s)]
    # solve the input relation for n of the 2n state variables (linear)
    solved = None
    for unknown in (v, i):
        try:
            s_ = sp.solve([sp.expand(e) for e in rin], unknown, dict=True)
        except Exception:
            s_ = []
        if s_ and len(s_) == 1 and all(u in s_[0] for u in unknown):
            solved = s_[0]
            break
    if solved is None:
        raise Abort("cannot solve the %s relation" % X)
    if Y == "zi":
        a, b = waves(n, v, i, z0s)
        a = [e.subs(sub) for e in a]
        for k in range(n):
            # terminate every other port: a_j = 0 for j != k
            cons = [a[j].subs(solved) for j in range(n) if j != k]
            free = [s for s in (v + i) if s not in solved]
            # eliminate n-1 free variables
            sol2 = sp.solve([sp.expand(sp.together(c)) for c in cons], free[:n - 1], dict=True) if n > 1 else [{}]
            if not sol2:
                raise Abort("cannot impose the termination conditions")
            st = {kk: vv.subs(sol2[0]) for kk, vv in solved.items()}
            st.update(sol2[0])
            res = (v[k] - out[k] * i[k]).subs(st).subs(st)
            obs.append(("ZI[%d]" % k, zero(res)))
        # aliasing: the Zin vector written over the input matrix's own storage (vnadata_convert in place)
        out2 = run(fname, n, M, z0s, alias=True, decisions=dec)
        obs.append(("AL", all(zero(p - q_) for p, q_ in zip(out, out2))))
    else:
        rout = [e.subs(sub) for e in relation(Y, out, n, v, i, z0s)]
        for r, e in enumerate(rout):
            obs.append(("R[%d]" % r, zero(e.subs(solved))))
        out2 = run(fname, n, M, z0s, alias=True, decisions=dec)
        obs.append(("AL", all(zero(p - q_) for p, q_ in zip(out, out2))))
        if n == 2 and Y in "szy" and numeric_seed is None:
            # agreement with the two-port function at n = 2
            two = fname[:-1]
            env = {("in", r, c): M[r * 2 + c] for r in range(2) for c in range(2)}
            env[("z0", 0)] = z0s[0]
            env[("z0", 1)] = z0s[1]
            o2, _, _ = slvc.run_function(two, env)
            obs.append(("N2(%s)" % two, all(zero(out[r * 2 + c] - o2[(r, c)]) for r in range(2) for c in range(2))))
    return obs


def path_witness_on_real_code(fname, lib):
    """an obligation failed on a data-dependent path: look for an input of the REAL function on which the defining
    relation is broken (random well-conditioned matrices at several magnitudes, n = 2, 3, 6).  None when the real
    code satisfies the relation on every sample (the path may be infeasible: nothing is decided then)."""
    import ctypes
    import random
    import numpy as np
    mm = re.fullmatch(r"vnaconv_([szy])to([szy])n", fname)
    if not mm:
        return None
    X, Y = mm.group(1), mm.group(2)
    sig, _b, _t = extract(fname)
    has_z0 = "z0" in sig
    L = ctypes.CDLL(lib)
    rnd = random.Random(2468)
    for n in (2, 3, 6):
        for scale in (1.0, 1e-3, 1e-6, 1e-9, 1e-12, 1e3, 1e6, 1e9):
            for _ in range(3):
                M = np.array([[complex(rnd.uniform(-1, 1), rnd.uniform(-1, 1)) for _ in range(n)] for _ in range(n)])
                M = (M + 3.0 * np.eye(n)) * scale           # diagonally dominant: condition number of order one
                if X == "s":
                    M = M / (8.0 * scale) if scale != 1.0 else M / 8.0     # |S| < 1; scaling S is not meaningful
                z0 = np.array([complex(rnd.uniform(20, 100), rnd.uniform(-30, 30)) for _ in range(n)])
                out = np.zeros((n, n), dtype=complex)
                Min = np.ascontiguousarray(M)
                args = [Min.ctypes.data_as(ctypes.c_void_p), out.ctypes.data_as(ctypes.c_void_p)]
                if has_z0:
                    args.append(z0.ctypes.data_as(ctypes.c_void_p))
                args.append(ctypes.c_int(n))
                getattr(L, fname)(*args)
                # a state satisfying the input relation
                rhs = np.array([complex(rnd.uniform(-1, 1), rnd.uniform(-1, 1)) for _ in range(n)])
                lhs = Min @ rhs
                q = np.sqrt(np.abs(z0.real))
                if X == "s":
                    a, b = rhs, lhs
                    i_ = q * (a - b) / z0.real
                    v_ = 2.0 * q * a - z0 * i_
                elif X == "z":
                    i_, v_ = rhs, lhs
                else:
                    v_, i_ = rhs, lhs
                a_ = (v_ + z0 * i_) / (2.0 * q)
                b_ = (v_ - np.conj(z0) * i_) / (2.0 * q)
                l2, r2 = {"s": (b_, a_), "z": (v_, i_), "y": (i_, v_)}[Y]
                res = l2 - out @ r2
                ref = max(float(np.max(np.abs(l2))), 1e-300)
                bad = (not np.all(np.isfinite(out))) or float(np.max(np.abs(res))) > 1e-6 * ref
                if bad:
                    return dict(n=n, input=[[str(c) for c in row] for row in Min.tolist()], z0=[str(c) for c in z0],
                                output=[[str(c) for c in row] for row in out.tolist()],
                                relative_residual=(None if not np.all(np.isfinite(res)) else float(np.max(np.abs(res))) / ref),
                                note="real %s called through ctypes; %s-relation state mapped through the returned matrix" % (fname, Y))
    return None


def all_functions():
    return ["vnaconv_stozn", "vnaconv_ztosn", "vnaconv_stoyn", "vnaconv_ytosn", "vnaconv_ztoyn", "vnaconv_ytozn",
            "vnaconv_stozin", "vnaconv_ztozin", "vnaconv_ytozin"]


if __name__ == "__main__":
    import time
    for f in all_functions():
        for n, seed in ((1, None), (2, None), (3, 1)):
            t0 = time.time()
            try:
                print(f, n, seed, verify(f, n, seed), round(time.time() - t0, 1))
            except Abort as e:
                print(f, n, "ABORT", e)

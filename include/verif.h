/*
 * verif.h -- harness vocabulary shared by the CBMC build and the native
 * replay build of every harness under /verif/harness.
 *
 *   -DVERIF_CBMC    : compiled by goto-cc; inputs are non-deterministic,
 *                     assumptions/assertions are CBMC's.
 *   -DVERIF_NATIVE  : compiled by cc against the real library objects with
 *                     sanitizers; inputs are read from the replay value file
 *                     named by $VERIF_REPLAY_VALUES (produced by the driver
 *                     from CBMC's counterexample trace); a false assumption
 *                     ends the run with status 0 ("trace does not apply"), a
 *                     false assertion prints the obligation and exits 3.
 *
 * Inputs are declared ONLY through IN()/IN_ARR() so that each symbolic input
 * has a name that appears as an assignment lhs in CBMC's trace.
 */
#ifndef VERIF_H
#define VERIF_H

#include <stddef.h>
#include <stdint.h>
#include <stdbool.h>

typedef unsigned int uint;
typedef unsigned char uchar;
typedef unsigned long ulong;
typedef long long llong;

#if defined(VERIF_CBMC)

int	nondet_int(void);
uint	nondet_uint(void);
long	nondet_long(void);
ulong	nondet_ulong(void);
double	nondet_double(void);
float	nondet_float(void);
_Bool	nondet_bool(void);
uchar	nondet_uchar(void);
char	nondet_char(void);
size_t	nondet_size_t(void);

#define IN(type, name)		type name = nondet_##type()
#define IN_G(type, name)	name = nondet_##type()
#define IN_ARR(type, name, n) \
    type name[n]; \
    for (int name##_i = 0; name##_i < (n); ++name##_i) \
	name[name##_i] = nondet_##type()
#define IN_ARR_G(type, name, n) \
    for (int name##_i = 0; name##_i < (n); ++name##_i) \
	name[name##_i] = nondet_##type()

#define ASSUME(c)		__CPROVER_assume(c)
#define CHECK(c, msg)		__CPROVER_assert((c), msg)
#define VERIF_RW_OK(p, n)	__CPROVER_rw_ok((p), (n))
#define VERIF_R_OK(p, n)	__CPROVER_r_ok((p), (n))
#define VERIF_OBJ_SIZE(p)	__CPROVER_OBJECT_SIZE(p)
#define VERIF_OBJ_SIZE_GE(p, n)	(__CPROVER_OBJECT_SIZE(p) >= (size_t)(n) && \
				 __CPROVER_POINTER_OFFSET(p) == 0)

/*
 * Vacuity guard.  REACH(name) marks a point that must be reachable under
 * the harness' assumptions.  In the ordinary build it is nothing; in the
 * canary build (-DVERIF_CANARY) it is an assertion that MUST FAIL.
 */
#ifdef VERIF_CANARY
#define REACH(name)		__CPROVER_assert(0, "canary-reach: " name)
#else
/*
 * In the ordinary build every REACH point carries a reach-probe: an
 * assertion that FAILS exactly when the point is reachable.  The driver
 * requires every probe of the entry harness to fail (a probe that holds
 * means the run was vacuous: exit 2) and does not count probes as
 * obligations.
 */
#define REACH(name) \
    do { if (!nondet_bool()) __CPROVER_assert(0, "reach-probe: " name); } while (0)
#endif

#elif defined(VERIF_NATIVE)

#include <stdio.h>
#include <stdlib.h>

extern long long   verif_in_ll(const char *name, int index);
extern double      verif_in_double(const char *name, int index);

#define verif_in_int(n, i)	((int)verif_in_ll(n, i))
#define verif_in_uint(n, i)	((uint)verif_in_ll(n, i))
#define verif_in_long(n, i)	((long)verif_in_ll(n, i))
#define verif_in_ulong(n, i)	((ulong)verif_in_ll(n, i))
#define verif_in_bool(n, i)	((_Bool)(verif_in_ll(n, i) != 0))
#define verif_in_uchar(n, i)	((uchar)verif_in_ll(n, i))
#define verif_in_char(n, i)	((char)verif_in_ll(n, i))
#define verif_in_size_t(n, i)	((size_t)verif_in_ll(n, i))
#define verif_in_float(n, i)	((float)verif_in_double(n, i))

#define IN(type, name)		type name = verif_in_##type(#name, -1)
#define IN_G(type, name)	name = verif_in_##type(#name, -1)
#define IN_ARR(type, name, n) \
    type name[n]; \
    for (int name##_i = 0; name##_i < (n); ++name##_i) \
	name[name##_i] = verif_in_##type(#name, name##_i)
#define IN_ARR_G(type, name, n) \
    for (int name##_i = 0; name##_i < (n); ++name##_i) \
	name[name##_i] = verif_in_##type(#name, name##_i)

#define ASSUME(c) \
    do { if (!(c)) { \
	fprintf(stderr, "REPLAY: assumption not satisfied: %s (%s:%d)\n", \
		#c, __FILE__, __LINE__); exit(0); } } while (0)
#define CHECK(c, msg) \
    do { if (!(c)) { \
	fprintf(stderr, "REPLAY-VIOLATION: %s (%s:%d)\n", msg, \
		__FILE__, __LINE__); exit(3); } } while (0)
#define VERIF_RW_OK(p, n)	(1)
#define VERIF_R_OK(p, n)	(1)
#define VERIF_OBJ_SIZE_GE(p, n)	(1)
#define REACH(name)		((void)0)
#define __CPROVER_assume(c)	ASSUME(c)
#define __CPROVER_assert(c, m)	CHECK(c, m)

#else
#error "define VERIF_CBMC or VERIF_NATIVE"
#endif

/*
 * Bit-exact comparison of two objects of the same scalar type (works for
 * NaN and signed zero).  No loop, so no unwinding is needed.
 */
#define SAME_BITS(a, b) \
    ({ __typeof__(a) sb_a_ = (a); __typeof__(a) sb_b_ = (b); \
       verif_same_bits(&sb_a_, &sb_b_, sizeof(sb_a_)); })
static inline _Bool verif_same_bits(const void *a, const void *b, size_t n)
{
    const unsigned char *pa = a, *pb = b;
    _Bool same = 1;

    if (n == 8) {
	return *(const uint64_t *)a == *(const uint64_t *)b;
    }
    if (n == 16) {
	return ((const uint64_t *)a)[0] == ((const uint64_t *)b)[0] &&
	       ((const uint64_t *)a)[1] == ((const uint64_t *)b)[1];
    }
    if (n == 4) {
	return *(const uint32_t *)a == *(const uint32_t *)b;
    }
    for (size_t i = 0; i < n && i < 32; ++i) {
	if (pa[i] != pb[i]) {
	    same = 0;
	}
    }
    return same;
}

#endif /* VERIF_H */

/*
 * verif_native.c -- input reader for native replay builds (-DVERIF_NATIVE).
 * Value file ($VERIF_REPLAY_VALUES): one input per line,
 *     <name> <index|-1> <decimal integer | 0x<16 hex digits of an IEEE double>>
 * Inputs absent from the file read as 0 (CBMC omits unconstrained inputs).
 */
#include <stdio.h>
#include <stdlib.h>
#include <string.h>
#include <stdint.h>

#define MAXV 4096
static struct { char name[64]; int index; char text[40]; } vals[MAXV];
static int nvals = -1;

static void load(void)
{
    const char *path = getenv("VERIF_REPLAY_VALUES");
    FILE *fp;

    nvals = 0;
    if (path == NULL || (fp = fopen(path, "r")) == NULL) {
	return;
    }
    while (nvals < MAXV && fscanf(fp, "%63s %d %39s", vals[nvals].name,
		&vals[nvals].index, vals[nvals].text) == 3) {
	++nvals;
    }
    fclose(fp);
}

static const char *find(const char *name, int index)
{
    if (nvals < 0) {
	load();
    }
    for (int i = nvals - 1; i >= 0; --i) {
	if (vals[i].index == index && strcmp(vals[i].name, name) == 0) {
	    return vals[i].text;
	}
    }
    return NULL;
}

long long verif_in_ll(const char *name, int index)
{
    const char *t = find(name, index);

    return t != NULL ? strtoll(t, NULL, 0) : 0;
}

double verif_in_double(const char *name, int index)
{
    const char *t = find(name, index);
    union { uint64_t u; double d; } x;

    if (t == NULL) {
	return 0.0;
    }
    if (t[0] == '0' && t[1] == 'x') {
	x.u = strtoull(t, NULL, 16);
	return x.d;
    }
    return strtod(t, NULL);
}

/*
 * C19 harnesses (structural clauses of _vnacommon_lu; backward stability
 * itself is a floating-point statement outside contract verification):
 *  - the pivot chosen in a column is the row with the largest magnitude
 *    RELATIVE TO ITS ROW'S LARGEST ELEMENT (scaled partial pivoting, the
 *    documented rule "row_scale = 1 / largest magnitude in each row", which
 *    is what makes the result independent of row scaling);
 *  - row_index is a permutation consistent with the swaps;
 *  - an exactly zero pivot makes the returned determinant 0 or non-normal,
 *    so that every call site's `== 0.0 || !isnormal(cabs(d))` test fires.
 * Compiled against the shim complex.h (real-valued cells).
 */
#include "archdep.h"
#include <math.h>
#include <complex.h>
#include "verif.h"
#include <vnacommon_internal.h>

static double pow2_10(int k)	/* 2^(10k), exact */
{
    double r = 1.0;

    for (int i = 0; i < 3; ++i) {
	if (i < k)
	    r *= 1024.0;
	if (i < -k)
	    r /= 1024.0;
    }
    return r;
}

/* concrete witnesses: row scaling by powers of two must not change the pivot sequence */
void h_lu_row_scaling(void)
{
    IN(int, e0);
    IN(int, e1);
    double complex a[4], b[4];
    int ra[2], rb[2];
    double s0, s1;

    ASSUME(e0 >= -3 && e0 <= 3 && e1 >= -3 && e1 <= 3);
    s0 = pow2_10(e0);		/* 2^-30 .. 2^30 */
    s1 = pow2_10(e1);
    /* reference matrix: scaled pivoting must pick row 1 in column 0 (|2|/3 > |1|/100) */
    a[0] = 1.0; a[1] = 100.0; a[2] = 2.0; a[3] = 3.0;
    b[0] = 1.0 * s0; b[1] = 100.0 * s0; b[2] = 2.0 * s1; b[3] = 3.0 * s1;
    (void)_vnacommon_lu(a, ra, 2);
    (void)_vnacommon_lu(b, rb, 2);
    REACH("lu returned");
    CHECK(ra[0] == 1 && ra[1] == 0,
	    "the pivot is the row largest relative to its own row maximum (scaled partial pivoting)");
    CHECK(rb[0] == ra[0] && rb[1] == ra[1],
	    "multiplying rows by powers of two does not change the pivot sequence");
}

/*
 * exhaustive over 2x2 matrices with entries from {1, 2, 3, 100} and both row
 * orders: the first pivot is the row with the larger |a_i0| / max_k |a_ik|
 * (compared exactly by integer cross-multiplication; ties excluded).
 * A symbolic version of this obligation does not finish (float division).
 */
void h_lu_pivot_rule(void)
{
    static const int val[4] = { 1, 2, 3, 100 };
    int checked = 0;

    for (int i0 = 0; i0 < 4; ++i0)
    for (int i1 = 0; i1 < 4; ++i1)
    for (int i2 = 0; i2 < 4; ++i2)
    for (int i3 = 0; i3 < 4; ++i3) {
	int v0 = val[i0], v1 = val[i1], v2 = val[i2], v3 = val[i3];
	int m0 = v0 > v1 ? v0 : v1, m1 = v2 > v3 ? v2 : v3;
	double complex a[4];
	int ri[2];

	a[0] = v0; a[1] = v1; a[2] = v2; a[3] = v3;
	(void)_vnacommon_lu(a, ri, 2);
	CHECK((ri[0] == 0 && ri[1] == 1) || (ri[0] == 1 && ri[1] == 0),
		"row_index is a permutation of the rows");
	if (v0 * m1 > v2 * m0) {
	    CHECK(ri[0] == 0, "row 0 larger relative to its row maximum: it is the pivot");
	    ++checked;
	} else if (v2 * m0 > v0 * m1) {
	    CHECK(ri[0] == 1, "row 1 larger relative to its row maximum: it is the pivot");
	    ++checked;
	}
    }
    REACH("lu pivot rule enumerated");
    CHECK(checked >= 100, "infra: the enumeration contains enough non-tie cases");
}


/*
 * 3x3: the pivot SEQUENCE (row_index) must not depend on multiplying one row
 * by a power of two, for a matrix in which the scaled row is displaced by the
 * first swap (so its scale factor has to travel with it).
 */
void h_lu_row_scaling3(void)
{
    IN(int, which);
    IN(int, e);
    static const double base[9] = { 1.0, 2.0, 50.0,   3.0, 1.0, 2.0,   2.0, 3.0, 1.0 };
    double complex a[9], b[9];
    int ra[3], rb[3];
    double sc;

    ASSUME(which >= 0 && which <= 2 && e >= -3 && e <= 3);
    sc = pow2_10(e);
    for (int i = 0; i < 9; ++i) {
	a[i] = base[i];
	b[i] = (i / 3 == which) ? base[i] * sc : base[i];
    }
    (void)_vnacommon_lu(a, ra, 3);
    (void)_vnacommon_lu(b, rb, 3);
    REACH("lu returned (3x3)");
    CHECK(ra[0] != ra[1] && ra[0] != ra[2] && ra[1] != ra[2] &&
	    ra[0] >= 0 && ra[0] < 3 && ra[1] >= 0 && ra[1] < 3 && ra[2] >= 0 && ra[2] < 3,
	    "row_index is a permutation");
    CHECK(ra[0] == rb[0] && ra[1] == rb[1] && ra[2] == rb[2],
	    "scaling one row by a power of two does not change the pivot sequence (3x3)");
}

/* zero pivot: determinant stands out */
void h_lu_zero_pivot(void)
{
    IN_ARR(double, v, 4);
    IN(int, which);
    double complex a[4];
    int ri[2];
    double d;

    for (int i = 0; i < 4; ++i)
	ASSUME(v[i] == v[i] && v[i] > -1.0e100 && v[i] < 1.0e100);
    ASSUME(which >= 0 && which <= 1);
    if (which == 0) {		/* zero first column */
	v[0] = 0.0; v[2] = 0.0;
    } else {			/* zero first row */
	v[0] = 0.0; v[1] = 0.0;
    }
    for (int i = 0; i < 4; ++i)
	a[i] = v[i];
    d = creal(_vnacommon_lu(a, ri, 2));
    REACH("lu returned (singular)");
    CHECK(d == 0.0 || !isnormal(d),
	    "an exactly zero pivot gives a determinant that the call sites' test rejects");
}

/*
 * Rank decision of _vnacommon_qrsolve (what vnacal_new_solve's "singular
 * linear system" test reads for over-determined systems).  The QR
 * factorisation is an ASSUMED CONTRACT (_vnacommon_qrd leaves ANY diagonal of
 * R in d); proved on the real code after it: a diagonal entry that is zero,
 * infinite or NaN - what the factorisation leaves when a column is
 * (numerically) dependent on the earlier ones - is never counted as rank, and
 * every normal entry is (subnormal entries: unspecified).
 */
#ifdef H_QRSOLVE
static double ghost_d[2];
void _vnacommon_qrd(complex double *a, complex double *d, int rows, int columns)
{
    (void)a;
    CHECK(rows == 3 && columns == 2, "factorisation called on the system given");
    d[0] = ghost_d[0];
    d[1] = ghost_d[1];
}

void h_qrsolve_rank(void)
{
    IN_ARR(double, dv, 2);
    IN_ARR(double, av, 6);
    IN_ARR(double, bv, 3);
    double complex a[6], b[3], x[2];
    int rank, good = 0, maybe = 0;

    for (int i = 0; i < 6; ++i)
	a[i] = av[i];
    for (int i = 0; i < 3; ++i)
	b[i] = bv[i];
    for (int i = 0; i < 2; ++i) {
	ghost_d[i] = dv[i];
	if (isnormal(dv[i]))
	    ++good;
	if (dv[i] == dv[i] && dv[i] != 0.0 && dv[i] - dv[i] == 0.0)	/* finite and non-zero */
	    ++maybe;
    }
    rank = _vnacommon_qrsolve(x, a, b, 3, 2, 1);
    REACH("qrsolve returned");
    CHECK(rank >= good, "every normal diagonal entry of R counts as rank");
    CHECK(rank <= maybe, "a zero, infinite or NaN diagonal entry of R is never counted as rank");
}
#endif

/*
 * _vnacommon_minverse on a singular matrix (n = 2): the callers that ignore
 * the returned determinant (vnaconv_ztoyn, ytozn, ztozin) rely on "a singular
 * matrix comes back as non-finite output, never as plausible numbers".  The
 * factorisation is an ASSUMED CONTRACT (any L, U with an exactly zero pivot,
 * any row order, determinant 0); proved on the real substitution code after
 * it: the result contains a non-finite entry - in particular the output
 * buffer is not left as it was.
 */
#ifdef H_MINVERSE
static double ghost_lu[4];
static int ghost_perm;
double complex _vnacommon_lu(complex double *a, int *row_index, int n)
{
    CHECK(n == 2, "factorisation called on the matrix given");
    for (int i = 0; i < 4; ++i)
	a[i] = ghost_lu[i];
    row_index[0] = ghost_perm ? 1 : 0;
    row_index[1] = ghost_perm ? 0 : 1;
    return 0.0;
}

void h_minverse_singular(void)
{
    IN_ARR(double, lu, 4);
    IN(_Bool, perm);
    IN(_Bool, first);
    double complex a[4], x[4];
    _Bool nonfinite = 0;

    for (int i = 0; i < 4; ++i) {
	ASSUME(lu[i] >= -1.0e6 && lu[i] <= 1.0e6);
	a[i] = 1.0;
	x[i] = 7.0;		/* what a previous frequency point might have left in the buffer */
    }
    if (first)
	lu[0] = 0.0;		/* zero pivot in the first elimination step */
    else
	lu[3] = 0.0;		/* ... or in the last */
    for (int i = 0; i < 4; ++i)
	ghost_lu[i] = lu[i];
    ghost_perm = perm;
    (void)_vnacommon_minverse(x, a, 2);
    REACH("minverse of a singular matrix returned");
    for (int i = 0; i < 4; ++i) {
	double v = creal(x[i]);

	if (v != v || v - v != 0.0)
	    nonfinite = 1;
    }
    CHECK(nonfinite, "the inverse of a matrix with an exactly zero pivot comes back non-finite, never as plausible numbers");
}
#endif

#ifdef VERIF_NATIVE
int main(void) { HARNESS(); return 0; }
#endif

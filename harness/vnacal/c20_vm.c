/*
 * C20 / C18: the V-matrix bookkeeping of _vnacal_new_solve_auto on a
 * calibration that has a noise model but NO over-determined system (every
 * minimal set of standards is like that): _vnacal_new_solve_init allocates no
 * V matrices then (vnsm_v_matrices == NULL for every standard), and the
 * save / restore helpers the iteration calls whenever a noise model is present
 * must cope with that - as every other user of the vector does.
 *
 * The three static helpers are the real code (the translation unit is
 * included); the state comes from the real vnacal_new_* calls and the real
 * _vnacal_new_solve_init.  OVERDETERMINED=1 adds a fourth standard so that
 * the matrices exist: saving and restoring is then the identity on them.
 */
#include "/repo/src/vnacal_new_solve_auto.c"
#define VERIF_SKIP_ARCHDEP
#include "wf_vnacal.h"

int vnaproperty_delete(vnaproperty_t **rootptr, const char *format, ...)
{
    (void)format;
    *rootptr = NULL;
    return 0;
}

#ifndef CAL_TYPE
#define CAL_TYPE VNACAL_T8
#endif
#ifndef OVERDETERMINED
#define OVERDETERMINED 0
#endif

void h_v_matrices(void)
{
    static const double mv[4] = { 2.0, 3.0, 5.0, 7.0 };
    static double f[1] = { 1.0e9 };
    double complex c[4];
    double complex *m1[1] = { &c[0] }, *m2[1] = { &c[1] }, *m3[1] = { &c[2] }, *m4[1] = { &c[3] };
    double nfv[1] = { 1.0 }, trv[1] = { 1.0 };
    vnacal_t *vcp;
    vnacal_new_t *vnp;
    vnacal_new_solve_state_t vnss;
    double complex *saved;
    int p_half;

    for (int i = 0; i < 4; ++i)
	c[i] = mv[i];
    ghost_err_reset();
    vcp = vnacal_create(verif_error_fn, NULL);
    ASSUME(vcp != NULL);
    vnp = vnacal_new_alloc(vcp, CAL_TYPE, 1, 1, 1);
    ASSUME(vnp != NULL);
    ASSUME(vnacal_new_set_frequency_vector(vnp, f) == 0);
    ASSUME(vnacal_new_add_single_reflect_m(vnp, m1, 1, 1, VNACAL_SHORT, 1) == 0);
    ASSUME(vnacal_new_add_single_reflect_m(vnp, m2, 1, 1, VNACAL_OPEN, 1) == 0);
    ASSUME(vnacal_new_add_single_reflect_m(vnp, m3, 1, 1, VNACAL_MATCH, 1) == 0);
#if OVERDETERMINED
    p_half = vnacal_make_scalar_parameter(vcp, 0.5);
    ASSUME(p_half >= 0);
    ASSUME(vnacal_new_add_single_reflect_m(vnp, m4, 1, 1, p_half, 1) == 0);
#else
    (void)m4; (void)p_half;
#endif
    ASSUME(vnacal_new_set_m_error(vnp, NULL, 1, nfv, trv) == 0);
    ASSUME(vs_init(&vnss, vnp) == 0);
    ASSUME(vs_start_frequency(&vnss, 0) == 0);
    REACH("state prepared");
#if OVERDETERMINED
    CHECK(vnss.vnss_msv_matrices[0].vnsm_v_matrices != NULL &&
	    vnss.vnss_msv_matrices[0].vnsm_v_matrices[0] != NULL, "an over-determined system has V matrices");
#else
    CHECK(vnss.vnss_msv_matrices[0].vnsm_v_matrices == NULL, "an exactly determined calibration has no V matrices");
#endif
    saved = alloc_v_matrices(&vnss);
    ASSUME(saved != NULL);
    save_v_matrices(&vnss, saved);
    REACH("V matrices saved");
#if OVERDETERMINED
    {
	double complex *v0 = vnss.vnss_msv_matrices[0].vnsm_v_matrices[0];
	double before = creal(v0[0]);

	v0[0] = 42.0;
	restore_v_matrices(&vnss, saved);
	CHECK(creal(v0[0]) == before, "restore brings back what save recorded");
    }
#else
    restore_v_matrices(&vnss, saved);
#endif
    REACH("V matrices restored");
    free(saved);
    vs_free(&vnss);
    vnacal_new_free(vnp);
    vnacal_free(vcp);
}

#ifdef VERIF_NATIVE
int main(void) { HARNESS(); return 0; }
#endif

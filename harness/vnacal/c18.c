/*
 * C18 harnesses (deterministic clauses):
 *  (a) both noise vectors NULL restores the unweighted behaviour;
 *  (b) the weight vector: the entry for the g-th equation, in the order the
 *      solvers enumerate equations across ALL systems, is
 *      1/sqrt(nf^2 + tr^2 |m_g|^2) with m_g that equation's own measured
 *      cell.  sqrt is replaced by an identity stand-in (uninterpreted: both
 *      sides use the same operations, so the comparison is structural).
 * The vnacal_new_t is built through the real API (concrete standards,
 * symbolic measured values).
 */
#include "wf_vnacal.h"

int vnaproperty_delete(vnaproperty_t **rootptr, const char *format, ...)
{
    (void)format;
    *rootptr = NULL;
    return 0;
}

#ifdef VERIF_CBMC
double sqrt(double x) { return x; }	/* uninterpreted stand-in, see header */
#endif

#ifndef CAL_TYPE
#define CAL_TYPE VNACAL_UE14
#endif

static vnacal_new_t *build(vnacal_t **vcpp, double complex **m1, double complex **m2,
	double complex **mt)
{
    static double f[1] = { 1.0e9 };
    vnacal_t *vcp = vnacal_create(verif_error_fn, NULL);
    vnacal_new_t *vnp;

    ASSUME(vcp != NULL);
    vnp = vnacal_new_alloc(vcp, CAL_TYPE, 2, 2, 1);
    ASSUME(vnp != NULL);
    ASSUME(vnacal_new_set_frequency_vector(vnp, f) == 0);
    ASSUME(vnacal_new_add_single_reflect_m(vnp, m1, 1, 1, VNACAL_SHORT, 1) == 0);
    ASSUME(vnacal_new_add_single_reflect_m(vnp, m2, 1, 1, VNACAL_OPEN, 2) == 0);
    ASSUME(vnacal_new_add_through_m(vnp, mt, 2, 2, 1, 2) == 0);
    *vcpp = vcp;
    return vnp;
}

void h_weights(void)
{
    /*
     * Concrete, pairwise distinct measured values: the obligation is about
     * WHICH measurement each weight is computed from; distinct constants
     * decide that exactly and keep the float arithmetic constant-folded.
     */
    static const double mv[6] = { 2.0, 3.0, 5.0, 7.0, 11.0, 13.0 };
    IN(bool, with_tr);
    double nf = 1.0, tr = with_tr ? 1.0 : 0.0;
    double complex c[6];
    double complex *m1[1] = { &c[0] }, *m2[1] = { &c[1] };
    double complex *mt[4] = { &c[2], &c[3], &c[4], &c[5] };
    double nfv[1], trv[1];
    vnacal_t *vcp;
    vnacal_new_t *vnp;
    vnacal_new_solve_state_t vnss;
    double *w;
    int g = 0;

    for (int i = 0; i < 6; ++i)
	c[i] = mv[i];
    nfv[0] = nf; trv[0] = tr;
    ghost_err_reset();
    vnp = build(&vcp, m1, m2, mt);
    ASSUME(vnacal_new_set_m_error(vnp, NULL, 1, nfv, trv) == 0);
    ASSUME(vs_init(&vnss, vnp) == 0);
    ASSUME(vs_start_frequency(&vnss, 0) == 0);
    w = vs_calc_weights(&vnss);
    REACH("weights computed");
    CHECK(w != NULL, "weights are computed");
    for (int s = 0; s < 2; ++s) {
	if (s < vnp->vn_systems) {
	    const vnacal_new_equation_t *e = vnp->vn_system_vector[s].vns_equation_list;

	    for (int k = 0; k < 8; ++k) {
		if (e != NULL) {
		    const vnacal_new_msv_matrices_t *mm =
			&vnss.vnss_msv_matrices[e->vne_vnmp->vnm_index];
		    double complex mg = mm->vnmm_m_matrix[e->vne_row * 2 + e->vne_column];
		    double expect = 1.0 / sqrt(_vnacommon_cabs2(mg) * (tr * tr) + nf * nf);

		    if (g < vnp->vn_equations)
			CHECK(SAME_BITS(w[g], expect),
				"the weight of the g-th equation (solver order, all systems) is "
				"1/sqrt(nf^2 + tr^2 |m_g|^2) for that equation's own measurement");
		    ++g;
		    e = e->vne_next;
		}
	    }
	}
    }
    CHECK(g == vnp->vn_equations, "one weight per equation");
    free(w);
    vs_free(&vnss);
    vnacal_new_free(vnp);
    vnacal_free(vcp);
}

void h_m_error_reset(void)
{
    IN_ARR(double, mv, 6);
    IN(double, nf);
    double complex c[6];
    double complex *m1[1] = { &c[0] }, *m2[1] = { &c[1] };
    double complex *mt[4] = { &c[2], &c[3], &c[4], &c[5] };
    double nfv[1];
    vnacal_t *vcp;
    vnacal_new_t *vnp;
    vnacal_new_solve_state_t vnss;

    for (int i = 0; i < 6; ++i)
	c[i] = mv[i];
    ASSUME(nf > 0.0);
    nfv[0] = nf;
    ghost_err_reset();
    vnp = build(&vcp, m1, m2, mt);
    ASSUME(vnacal_new_set_m_error(vnp, NULL, 1, nfv, NULL) == 0);
    CHECK(vnp->vn_m_error_vector != NULL, "the model is enabled");
    CHECK(vnacal_new_set_m_error(vnp, NULL, 1, NULL, NULL) == 0 && ghost_err_calls == 0,
	    "both vectors NULL is accepted silently");
    REACH("model disabled");
    CHECK(vnp->vn_m_error_vector == NULL, "both vectors NULL disables the model (vector freed)");
    ASSUME(vs_init(&vnss, vnp) == 0);
    for (int i = 0; i < 3; ++i)
	CHECK(vnss.vnss_msv_matrices[i].vnsm_v_matrices == NULL,
		"with the model disabled no V matrices are allocated (unweighted path)");
    vs_free(&vnss);
    vnacal_new_free(vnp);
    vnacal_free(vcp);
}


/*
 * (d) the chi-square of the consistency test divides each equation's squared
 * residual by nf^2 + tr^2 |m|^2 of THAT equation's own measured cell: an
 * in-place ghost assertion (hook in vnacal_new_solve_pvalue.c, LIBVNA_VERIF
 * only) states it at the point of use; this harness drives the real function
 * over a real history up to the cut point before the numeric tail
 * (chisq_pvalue: incomplete gamma function).
 */
#ifdef H_PVALUE
void h_pvalue_variance(void)
{
    static const double mv[6] = { 2.0, 3.0, 5.0, 7.0, 11.0, 13.0 };
    double complex c[6];
    double complex *m1[1] = { &c[0] }, *m2[1] = { &c[1] };
    double complex *mt[4] = { &c[2], &c[3], &c[4], &c[5] };
    double nfv[1] = { 1.0 }, trv[1] = { 1.0 };
    double complex x[16];
    vnacal_t *vcp;
    vnacal_new_t *vnp;
    vnacal_new_solve_state_t vnss;
    int n;

    for (int i = 0; i < 6; ++i)
	c[i] = mv[i];
    for (int i = 0; i < 16; ++i)
	x[i] = 1.0;
    ghost_err_reset();
    vnp = build(&vcp, m1, m2, mt);
    ASSUME(vnacal_new_set_m_error(vnp, NULL, 1, nfv, trv) == 0);
    ASSUME(vs_init(&vnss, vnp) == 0);
    ASSUME(vs_start_frequency(&vnss, 0) == 0);
    n = vnp->vn_systems * (vnp->vn_layout.vl_t_terms - 1);
    ASSUME(n <= 16);
#ifdef PVALUE_LEAKAGE
    /*
     * leakage samples as ANY accumulation could have left them: count >= 2,
     * sum and sum of squares finite and bounded and consistent only UP TO
     * ROUNDING (sumsq >= |sum|^2 / n holds in exact arithmetic; identical
     * samples round either way).  The library's own assertions
     * "chisq is a number" and "chisq >= 0" are the obligations.
     */
    if (vnss.vnss_leakage_matrix != NULL) {
	IN(double, l_sum);
	IN(double, l_sumsq);
	IN(int, l_count);
	vnacal_new_leakage_term_t *lt = vnss.vnss_leakage_matrix[1];

	ASSUME(lt != NULL);
	ASSUME(l_count >= 2 && l_count <= 1000);
	ASSUME(l_sum >= -1.0e6 && l_sum <= 1.0e6 && l_sumsq >= 0.0 && l_sumsq <= 1.0e12);
	/* consistent up to rounding: sum |x|^2 >= |sum x|^2 / n within a relative 1e-9 */
	ASSUME(l_sumsq * (double)l_count >= l_sum * l_sum * (1.0 - 1.0e-9));
	lt->vnlt_sum = l_sum;
	lt->vnlt_sumsq = l_sumsq;
	lt->vnlt_count = l_count;
	REACH("leakage samples made symbolic");
    }
#endif
    REACH("state prepared");
    (void)_vnacal_new_solve_calc_pvalue(&vnss, x, n);
    /* not reached under the cut point: the obligations are the ghost assertions inside */
    vs_free(&vnss);
    vnacal_new_free(vnp);
    vnacal_free(vcp);
}

/*
 * (e) no degrees of freedom: an exactly determined calibration (as many
 * equations as unknown error terms) leaves no residual to test, so the
 * consistency test has nothing to reject.  vnacal_new(3): the p-value is the
 * probability that residuals of the observed size arise from random errors
 * alone - for residuals that are identically zero that is 1, whatever the
 * noise model and the solved terms.  (With 0 the solve of every minimal set
 * of standards would be refused as soon as a noise model is given: C20.)
 */
void h_pvalue_df0(void)
{
    static const double mv[3] = { 2.0, 3.0, 5.0 };
    static double f[1] = { 1.0e9 };
    IN(double, x0);
    IN(double, x1);
    IN(double, x2);
    double complex c[3];
    double complex *m1[1] = { &c[0] }, *m2[1] = { &c[1] }, *m3[1] = { &c[2] };
    double nfv[1] = { 1.0 }, trv[1] = { 1.0 };
    double complex x[3];
    vnacal_t *vcp;
    vnacal_new_t *vnp;
    vnacal_new_solve_state_t vnss;
    double p;

    ASSUME(x0 == x0 && x1 == x1 && x2 == x2);
    for (int i = 0; i < 3; ++i)
	c[i] = mv[i];
    x[0] = x0; x[1] = x1; x[2] = x2;
    ghost_err_reset();
    vcp = vnacal_create(verif_error_fn, NULL);
    ASSUME(vcp != NULL);
    vnp = vnacal_new_alloc(vcp, CAL_TYPE, 1, 1, 1);
    ASSUME(vnp != NULL);
    ASSUME(vnacal_new_set_frequency_vector(vnp, f) == 0);
    ASSUME(vnacal_new_add_single_reflect_m(vnp, m1, 1, 1, VNACAL_SHORT, 1) == 0);
    ASSUME(vnacal_new_add_single_reflect_m(vnp, m2, 1, 1, VNACAL_OPEN, 1) == 0);
    ASSUME(vnacal_new_add_single_reflect_m(vnp, m3, 1, 1, VNACAL_MATCH, 1) == 0);
    ASSUME(vnacal_new_set_m_error(vnp, NULL, 1, nfv, trv) == 0);
    ASSUME(vs_init(&vnss, vnp) == 0);
    ASSUME(vs_start_frequency(&vnss, 0) == 0);
    CHECK(vnp->vn_systems * (vnp->vn_layout.vl_t_terms - 1) == 3 && vnp->vn_equations == 3,
	    "three equations for three unknown error terms: exactly determined");
    REACH("state prepared");
    p = _vnacal_new_solve_calc_pvalue(&vnss, x, 3);
    REACH("p-value returned");
    CHECK(p == 1.0, "without degrees of freedom nothing can be rejected: the p-value is 1");
    vs_free(&vnss);
    vnacal_new_free(vnp);
    vnacal_free(vcp);
}
#endif

#ifdef H_SIMPLE_INDEX
/*
 * (c) _vnacal_new_solve_simple reads, for every equation it assembles, the
 * weight of THAT equation (position among all systems).  The weight
 * computation is replaced by a marker contract (w[g] = g + 2, body removed
 * with goto-instrument) and the linear kernel by a recording contract; all
 * measured values are 1 and all standards are 0 / +1 / -1, so every non-zero
 * coefficient of row r of system s must be +-(marker of equation base_s + r).
 */
static int ghost_kernel_calls;
static int ghost_rows_per_system;
#ifdef DET_SYMBOLIC
static double ghost_det;
#endif

double *_vnacal_new_solve_calc_weights(vnacal_new_solve_state_t *vnssp)
{
    int n = vnssp->vnss_vnp->vn_equations;
    double *w = calloc(n, sizeof(double));

    ASSUME(w != NULL);
    for (int g = 0; g < 16; ++g)
	if (g < n)
	    w[g] = (double)(g + 2);
    return w;
}

double complex _vnacommon_mldivide(double complex *x, double complex *a,
	const double complex *b, int m, int n)
{
    int base = ghost_kernel_calls * ghost_rows_per_system;

    CHECK(n == 1 && m == ghost_rows_per_system, "kernel called on a square per-system matrix");
    for (int r = 0; r < 8; ++r) {
	if (r < m) {
	    double mark = (double)(base + r + 2);

	    for (int c = 0; c < 8; ++c)
		if (c < m)
		    CHECK(creal(a[r * m + c]) == 0.0 || creal(a[r * m + c]) == mark ||
			    creal(a[r * m + c]) == -mark,
			    "every coefficient of an equation is weighted with that equation's own weight");
	    CHECK(creal(b[r]) == 0.0 || creal(b[r]) == mark || creal(b[r]) == -mark,
		    "every right-hand side entry is weighted with that equation's own weight");
	}
    }
    for (int r = 0; r < 8; ++r)
	if (r < m)
	    x[r] = 1.0;
    ++ghost_kernel_calls;
#ifdef DET_SYMBOLIC
    return ghost_det;		/* C19 call-site clause: any determinant for the LAST system */
#else
    return 1.0;
#endif
}

/*
 * Over-determined systems go to _vnacommon_qrsolve (recording contract):
 * row r of the s-th system handed over carries the marker of equation
 * (number of equations of all earlier systems) + r.  With different
 * equation counts per system no simpler index formula coincides with it.
 */
#ifdef RANK_SYMBOLIC
static int ghost_rank;
#endif
static const double complex *ghost_x_base;
static const vnacal_new_t *ghost_vnp;
int _vnacommon_qrsolve(complex double *x, complex double *a,
	complex double *b, int m, int n, int o)
{
    int sindex = (int)((x - ghost_x_base) / ghost_rows_per_system);
    int ghost_eq_base = 0;

    CHECK(o == 1 && n == ghost_rows_per_system && m > n,
	    "kernel called on an over-determined per-system matrix");
    CHECK(sindex >= 0 && sindex < ghost_vnp->vn_systems &&
	    x == ghost_x_base + sindex * ghost_rows_per_system &&
	    m == ghost_vnp->vn_system_vector[sindex].vns_equation_count,
	    "the solution of system s goes to its own slice of x and has that system's equation count");
    for (int s_ = 0; s_ < 4; ++s_)
	if (s_ < sindex)
	    ghost_eq_base += ghost_vnp->vn_system_vector[s_].vns_equation_count;
    for (int r = 0; r < 12; ++r) {
	if (r < m) {
	    double mark = (double)(ghost_eq_base + r + 2);

	    for (int c = 0; c < 8; ++c)
		if (c < n)
		    CHECK(creal(a[r * n + c]) == 0.0 || creal(a[r * n + c]) == mark ||
			    creal(a[r * n + c]) == -mark,
			    "every coefficient of an equation is weighted with that equation's own weight (over-determined system)");
	    CHECK(creal(b[r]) == 0.0 || creal(b[r]) == mark || creal(b[r]) == -mark,
		    "every right-hand side entry is weighted with that equation's own weight (over-determined system)");
	}
    }
    for (int c = 0; c < 8; ++c)
	if (c < n)
	    x[c] = 1.0;
    ++ghost_kernel_calls;
#ifdef RANK_SYMBOLIC
    return ghost_rank;		/* C19 call-site clause: any rank 0..n for every system */
#else
    return n;
#endif
}

#ifdef OVERDETERMINED
/*
 * ASSUMED CONTRACT: the V matrices stay as initialised (identity), so the
 * second pass over each over-determined system sees the same coefficients
 * and the iteration ends (x unchanged).
 */
int _vnacal_new_solve_update_v_matrices(const char *function,
	vnacal_new_solve_state_t *vnssp, int sindex,
	const double complex *x_vector, int x_length)
{
    (void)function; (void)vnssp; (void)sindex; (void)x_vector; (void)x_length;
    return 0;
}
#endif

void h_simple_weight_index(void)
{
    static double f[1] = { 1.0e9 };
    double complex one[4] = { 1.0, 1.0, 1.0, 1.0 };
    double complex *m1[1] = { &one[0] };
    double complex *mt[4] = { &one[0], &one[1], &one[2], &one[3] };
    double nfv[1] = { 1.0 };
    vnacal_t *vcp;
    vnacal_new_t *vnp;
    vnacal_new_solve_state_t vnss;
    double complex x[16];
    int unknowns, rc;

    ghost_err_reset();
    vcp = vnacal_create(verif_error_fn, NULL);
    ASSUME(vcp != NULL);
    vnp = vnacal_new_alloc(vcp, CAL_TYPE, 2, 2, 1);
    ASSUME(vnp != NULL);
    ASSUME(vnacal_new_set_frequency_vector(vnp, f) == 0);
    ASSUME(vnacal_new_add_through_m(vnp, mt, 2, 2, 1, 2) == 0);
    ASSUME(vnacal_new_add_single_reflect_m(vnp, m1, 1, 1, VNACAL_SHORT, 1) == 0);
    ASSUME(vnacal_new_add_single_reflect_m(vnp, m1, 1, 1, VNACAL_OPEN, 1) == 0);
    ASSUME(vnacal_new_add_single_reflect_m(vnp, m1, 1, 1, VNACAL_MATCH, 1) == 0);
    ASSUME(vnacal_new_add_single_reflect_m(vnp, m1, 1, 1, VNACAL_SHORT, 2) == 0);
    ASSUME(vnacal_new_add_single_reflect_m(vnp, m1, 1, 1, VNACAL_OPEN, 2) == 0);
    ASSUME(vnacal_new_add_single_reflect_m(vnp, m1, 1, 1, VNACAL_MATCH, 2) == 0);
#ifdef OVERDETERMINED
    /* one redundant reflect on port 1, two on port 2: unknowns+1 and unknowns+2 equations
     * (MIXED: none on port 1: the first system is exactly determined, the second over-determined) */
#ifndef MIXED
    ASSUME(vnacal_new_add_single_reflect_m(vnp, m1, 1, 1, VNACAL_SHORT, 1) == 0);
#endif
    ASSUME(vnacal_new_add_single_reflect_m(vnp, m1, 1, 1, VNACAL_SHORT, 2) == 0);
    ASSUME(vnacal_new_add_single_reflect_m(vnp, m1, 1, 1, VNACAL_OPEN, 2) == 0);
    /* bounds the V-matrix iteration for symex (calloc'ed prev_x is not constant-folded); two passes suffice here */
    ASSUME(vnacal_new_set_iteration_limit(vnp, 3) == 0);
#endif
    ASSUME(vnacal_new_set_m_error(vnp, NULL, 1, nfv, NULL) == 0);
    unknowns = vnp->vn_layout.vl_t_terms - 1;
#ifdef OVERDETERMINED
#ifdef MIXED
    ASSUME(vnp->vn_systems == 2 && vnp->vn_system_vector[0].vns_equation_count == unknowns &&
	    vnp->vn_system_vector[1].vns_equation_count == unknowns + 2 && unknowns <= 8 &&
	    vnp->vn_equations <= 16);
#else
    ASSUME(vnp->vn_systems == 2 && vnp->vn_system_vector[0].vns_equation_count == unknowns + 1 &&
	    vnp->vn_system_vector[1].vns_equation_count == unknowns + 2 && unknowns <= 8 &&
	    vnp->vn_equations <= 16);
#endif
#else
    ASSUME(vnp->vn_systems == 2 && vnp->vn_system_vector[0].vns_equation_count == unknowns &&
	    vnp->vn_system_vector[1].vns_equation_count == unknowns && unknowns <= 8);
#endif
    ghost_rows_per_system = unknowns;
    ASSUME(vs_init(&vnss, vnp) == 0);
    ASSUME(vs_start_frequency(&vnss, 0) == 0);
    ghost_x_base = x;
    ghost_vnp = vnp;
#ifdef RANK_SYMBOLIC
    {
	IN(int, rank);

	ASSUME(rank >= 0 && rank <= unknowns);
	ghost_rank = rank;
	ghost_err_reset();
	rc = _vnacal_new_solve_simple(&vnss, x, 2 * unknowns);
	REACH("solve_simple returned (symbolic rank)");
	if (rank < unknowns) {
	    REACH("rank-deficient system");
	    CHECK(rc == -1 && ghost_err_calls == 1 && ghost_err_category == VNAERR_MATH && errno == EDOM,
		    "an over-determined system found rank deficient is reported once as a math error (EDOM)");
	    CHECK(ghost_kernel_calls == 1, "and the solve stops there");
	} else {
	    CHECK(rc == 0 && ghost_err_calls == 0, "full-rank systems solve silently");
	}
	vs_free(&vnss);
	vnacal_new_free(vnp);
	vnacal_free(vcp);
	return;
    }
#endif
#ifdef DET_SYMBOLIC
    {
	IN(double, det);

	/* zero or NaN (a zero pivot in _vnacommon_lu) or a normal number; inf/subnormal: unspecified, excluded */
	ASSUME(det == 0.0 || det != det || __builtin_isnormal(det));
	ghost_det = det;
	ghost_err_reset();
	rc = _vnacal_new_solve_simple(&vnss, x, 2 * unknowns);
	REACH("solve_simple returned (symbolic determinant)");
	if (det == 0.0 || det != det) {
	    REACH("singular system");
	    CHECK(rc == -1 && ghost_err_calls == 1 && ghost_err_category == VNAERR_MATH && errno == EDOM,
		    "a system whose elimination met a zero pivot is reported once as a math error (EDOM)");
	    CHECK(ghost_kernel_calls == 1, "and the solve stops there");
	} else {
	    CHECK(rc == 0 && ghost_err_calls == 0 && ghost_kernel_calls == 2, "regular systems solve silently");
	}
	vs_free(&vnss);
	vnacal_new_free(vnp);
	vnacal_free(vcp);
	return;
    }
#endif
    rc = _vnacal_new_solve_simple(&vnss, x, 2 * unknowns);
    REACH("solve_simple returned");
#if defined(OVERDETERMINED) && defined(MIXED)
    CHECK(rc == 0 && ghost_kernel_calls == 3,
	    "an exactly determined system followed by an over-determined one: the iteration of the second ends when x repeats (the first system's solution does not keep it from converging)");
#elif defined(OVERDETERMINED)
    CHECK(rc == 0 && ghost_kernel_calls == 4, "both systems were assembled and handed to the kernel (twice each: the iteration ends when x repeats)");
#else
    CHECK(rc == 0 && ghost_kernel_calls == 2, "both systems were assembled and handed to the kernel");
#endif
    vs_free(&vnss);
    vnacal_new_free(vnp);
    vnacal_free(vcp);
}
#endif

#ifdef VERIF_NATIVE
int main(void) { HARNESS(); return 0; }
#endif

/*
 * C19, call-site clause for the a/b -> m reduction of the vnacal_new_add_*
 * functions (_vnacal_new_add_common): M = B A^-1 per frequency.  The linear
 * kernel is an ASSUMED CONTRACT (marker solution, ANY determinant); proved on
 * the real code around it: a determinant that is zero or NaN (what
 * _vnacommon_lu returns when elimination meets an exactly zero pivot: C19
 * lu_zero_pivot) makes the call fail with one MATH report and
 * records nothing; otherwise the kernel's solution for frequency f lands in
 * the measurement cells of frequency f.
 */
#include "wf_vnacal.h"

int vnaproperty_delete(vnaproperty_t **rootptr, const char *format, ...)
{
    (void)format;
    *rootptr = NULL;
    return 0;
}

#ifndef CAL_TYPE
#define CAL_TYPE VNACAL_T8
#endif
#define NF 2
static double ghost_det[NF];
static int ghost_calls;

/* X = B A^-1 */
double complex _vnacommon_mrdivide(complex double *x, const complex double *b,
	double complex *a, int m, int n)
{
    int call = ghost_calls;

    (void)a; (void)b;
    CHECK(m == 2 && n == 2 && call < NF, "one 2x2 reduction per frequency");
    for (int i = 0; i < 4; ++i)
	x[i] = (double)(100 * (call + 1) + i + 1);
    ++ghost_calls;
    return call < NF ? ghost_det[call] : 1.0;
}

/*
 * What _vnacommon_lu returns when elimination meets an exactly zero pivot:
 * d *= 0 gives +-0, and later factors that are inf/NaN (division by the zero
 * pivot) turn it into NaN.  Infinite and subnormal determinants do not come
 * from a zero pivot; what the call site does with them is left unspecified
 * here (they are excluded from the run).
 */
static _Bool det_bad(double d)
{
    return d == 0.0 || d != d;
}

void h_ab_reduction(void)
{
    IN_ARR(double, det, NF);
    IN_ARR(double, av, 4);
    IN_ARR(double, bv, 4);
    static double f[NF] = { 1.0e9, 2.0e9 };
    double complex ac[4][NF], bc[4][NF];
    double complex *a[4], *b[4];
    vnacal_t *vcp;
    vnacal_new_t *vnp;
    int rc, first_bad = -1;

    for (int i = 0; i < 4; ++i) {
	for (int k = 0; k < NF; ++k) {
	    ac[i][k] = av[i];
	    bc[i][k] = bv[i];
	}
	a[i] = ac[i];
	b[i] = bc[i];
    }
    for (int k = 0; k < NF; ++k) {
	ASSUME(det_bad(det[k]) || __builtin_isnormal(det[k]));
	ghost_det[k] = det[k];
	if (first_bad < 0 && det_bad(det[k]))
	    first_bad = k;
    }
    ghost_err_reset();
    vcp = vnacal_create(verif_error_fn, NULL);
    ASSUME(vcp != NULL);
    vnp = vnacal_new_alloc(vcp, CAL_TYPE, 2, 2, NF);
    ASSUME(vnp != NULL);
    ASSUME(vnacal_new_set_frequency_vector(vnp, f) == 0);
    CHECK(ghost_err_calls == 0, "set-up is silent");

    rc = vnacal_new_add_through(vnp, a, 2, 2, b, 2, 2, 1, 2);
    REACH("add_through returned");
    if (first_bad >= 0) {
	REACH("a singular 'a' matrix");
	CHECK(rc == -1, "an 'a' matrix whose elimination met a zero pivot (determinant zero or NaN) is refused");
	CHECK(ghost_err_calls == 1 && ghost_err_category == VNAERR_MATH && errno == EDOM,
		"and reported once through the documented error path (MATH, EDOM)");
	CHECK(ghost_calls == first_bad + 1, "the reduction stops at the first singular frequency");
	CHECK(vnp->vn_measurement_list == NULL && vnp->vn_measurement_count == 0 && vnp->vn_equations == 0,
		"a refused standard records nothing");
    } else {
	REACH("regular 'a' matrices");
	CHECK(rc == 0 && ghost_err_calls == 0, "regular 'a' matrices are accepted silently");
	CHECK(ghost_calls == NF, "one reduction per frequency");
	CHECK(vnp->vn_measurement_list != NULL && vnp->vn_measurement_count == 1, "the standard is recorded");
	if (vnp->vn_measurement_list != NULL)
	    for (int k = 0; k < NF; ++k)
		for (int cell = 0; cell < 4; ++cell)
		    CHECK(vnp->vn_measurement_list->vnm_m_matrix[cell] != NULL &&
			    creal(vnp->vn_measurement_list->vnm_m_matrix[cell][k]) == (double)(100 * (k + 1) + cell + 1),
			    "M = B A^-1 of frequency f is stored in the cells of frequency f");
    }
    vnacal_new_free(vnp);
    vnacal_free(vcp);
    /* --memory-leak-check */
}

#ifdef VERIF_NATIVE
int main(void) { HARNESS(); return 0; }
#endif

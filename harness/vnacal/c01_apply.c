/*
 * C01 link 5 (frame of vnacal_apply / vnacal_apply_m): with the error terms
 * interpolated at the frequency being corrected, the A and B matrices built
 * by the real fill_* functions go to the kernel the layout documents
 * (T: S = A^-1 B by mldivide; U and E12: S = B A^-1 by mrdivide), and the
 * solution of frequency f, cell (r,c) is stored in the result at frequency
 * f, cell (r,c); a singular system is reported (MATH), nothing is read
 * outside the caller's vectors - also for an empty frequency list.
 *
 * ASSUMED CONTRACTS (recording): _vnacal_rfi returns a marker that encodes
 * (frequency index, error term); the linear kernels record their arguments
 * and return a marker solution with a nondeterministic determinant.  The
 * real code under them: vnacal_apply_m / vnacal_apply / _vnacal_apply_common,
 * fill_t8/u8/t16/u16/ue14/e12, the calibration bound functions, vnadata_*.
 */
#include "wf_vnacal.h"
#include <vnadata.h>

int vnaproperty_delete(vnaproperty_t **rootptr, const char *format, ...)
{
    (void)format;
    *rootptr = NULL;
    return 0;
}

#ifndef CAL_TYPE
#define CAL_TYPE VNACAL_T8
#endif
#ifndef N_APPLY
#define N_APPLY 2		/* frequencies given to apply */
#endif
#define NP 2			/* 2x2 calibration */
#ifndef CAL_F
#define CAL_F 3			/* calibration frequencies (0: a calibration solved at no frequency) */
#endif

static const double cal_f[3] = { 1.0e9, 2.0e9, 3.0e9 };
static double apply_f[3] = { 1.0e9, 1.5e9, 3.0e9 };
static const vnacal_calibration_t *ghost_calp;
static int ghost_rfi_calls, ghost_kernel_calls, ghost_kernel_kind[4];
static double ghost_a[4][NP * NP], ghost_b[4][NP * NP];
static _Bool ghost_bad_det;

static double t_marker(int findex, int term)
{
    return (double)(100 * (findex + 1) + term + 1);
}

static double s_marker(int call, int cell)
{
    return (double)(1000 * (call + 1) + cell + 1);
}

double complex _vnacal_rfi(const double *xp, double complex *yp,
	int n, int m, int *segment, double x)
{
    int findex = -1, term = -1;

    (void)segment;
    if (ghost_calp == NULL)		/* parameter evaluation elsewhere: not used here */
	return 0.0;
    CHECK(xp == ghost_calp->cal_frequency_vector && n == ghost_calp->cal_frequencies,
	    "error terms are interpolated over the calibration's own frequency grid");
    CHECK(m == (n < VNACAL_MAX_M ? n : VNACAL_MAX_M),
	    "the interpolation order follows from the calibration's own point count - not from the request "
	    "(values do not depend on which other frequencies were asked for)");
    for (int i = 0; i < 3; ++i)
	if (i < N_APPLY && x == apply_f[i])
	    findex = i;
    for (int k = 0; k < 24; ++k)
	if (k < ghost_calp->cal_error_terms && yp == ghost_calp->cal_error_term_vector[k])
	    term = k;
    CHECK(findex >= 0, "error terms are interpolated at one of the requested frequencies");
    CHECK(term >= 0, "the interpolated vector is one of the calibration's error terms");
    ++ghost_rfi_calls;
    return t_marker(findex, term);
}

static double complex kernel(int kind, double complex *x, const double complex *a,
	const double complex *b, int m, int n)
{
    int call = ghost_kernel_calls;

    CHECK(m == NP && n == NP, "kernel called on a ports x ports system");
    CHECK(call < 4, "at most one kernel call per frequency");
    if (call < 4) {
	ghost_kernel_kind[call] = kind;
	for (int i = 0; i < NP * NP; ++i) {
	    ghost_a[call][i] = creal(a[i]);
	    ghost_b[call][i] = creal(b[i]);
	}
    }
    for (int i = 0; i < NP * NP; ++i)
	x[i] = s_marker(call, i);
    ++ghost_kernel_calls;
    if (ghost_bad_det && call == N_APPLY - 1)
	return 0.0;
    return 1.0;
}

/* X = A^-1 B */
double complex _vnacommon_mldivide(complex double *x, complex double *a,
	const double complex *b, int m, int n)
{
    return kernel(1, x, a, b, m, n);
}

/* X = B A^-1 */
double complex _vnacommon_mrdivide(complex double *x, const complex double *b,
	double complex *a, int m, int n)
{
    return kernel(2, x, a, b, m, n);
}

static double m_value(int cell, int findex)
{
    return (double)(10 * (cell + 1) + findex + 1);
}

void h_apply_frame(void)
{
    IN(_Bool, bad_det);
    vnacal_t *vcp;
    vnacal_calibration_t *calp;
    vnacal_layout_t vl;
    vnadata_t *vdp;
    double complex mv[NP * NP][3];
    double complex *m[NP * NP];
    int ci, rc, terms;
    const _Bool is_t = (CAL_TYPE == VNACAL_T8 || CAL_TYPE == VNACAL_TE10 || CAL_TYPE == VNACAL_T16);

    ghost_err_reset();
    ghost_bad_det = bad_det;
    vcp = vnacal_create(verif_error_fn, NULL);
    ASSUME(vcp != NULL);
    _vnacal_layout(&vl, CAL_TYPE, NP, NP);
    terms = VL_ERROR_TERMS(&vl);
    ASSUME(terms <= 24);
    calp = _vnacal_calibration_alloc(vcp, CAL_TYPE, NP, NP, CAL_F, terms);
    ASSUME(calp != NULL);
    for (int i = 0; i < CAL_F; ++i)
	calp->cal_frequency_vector[i] = cal_f[i];
    calp->cal_z0 = 50.0;
    ci = _vnacal_add_calibration_common("h_apply_frame", vcp, calp, "cal");
    ASSUME(ci >= 0);
    vdp = vnadata_alloc(verif_error_fn, NULL);
    ASSUME(vdp != NULL);
    for (int cell = 0; cell < NP * NP; ++cell) {
	for (int f = 0; f < 3; ++f)
	    mv[cell][f] = m_value(cell, f);
	m[cell] = mv[cell];
    }
    ghost_calp = calp;
    CHECK(ghost_err_calls == 0, "set-up is silent");

#if N_APPLY == 0
    {
	/* an empty request: the frequency vector has no element that may be read */
	double *none = malloc(0);

	ASSUME(none != NULL);
	rc = vnacal_apply_m(vcp, ci, none, 0, m, NP, NP, vdp);
	REACH("apply with no frequencies returned");
	CHECK(rc == 0 || rc == -1, "apply returns 0 or -1");
	if (rc == 0) {
	    CHECK(ghost_err_calls == 0 && vnadata_get_frequencies(vdp) == 0 &&
		    vnadata_get_rows(vdp) == NP && vnadata_get_columns(vdp) == NP,
		    "an empty request yields an empty, correctly shaped result");
	} else {
	    CHECK(ghost_err_calls == 1, "a refused request is reported once");
	}
	CHECK(ghost_kernel_calls == 0 && ghost_rfi_calls == 0, "nothing is computed for an empty request");
	free(none);
    }
#elif CAL_F == 0
    /* a calibration without frequencies covers no frequency: refused, and its empty vector is not read for the message */
    rc = vnacal_apply_m(vcp, ci, apply_f, N_APPLY, m, NP, NP, vdp);
    REACH("apply to an empty calibration returned");
    CHECK(rc == -1 && ghost_err_calls == 1 && ghost_err_category == VNAERR_USAGE && errno == EINVAL,
	    "a request outside the (empty) calibration range is refused once as a usage error");
    CHECK(ghost_kernel_calls == 0 && ghost_rfi_calls == 0, "nothing is computed");
    (void)bad_det; (void)terms; (void)is_t;
#else
    rc = vnacal_apply_m(vcp, ci, apply_f, N_APPLY, m, NP, NP, vdp);
    REACH("apply returned");
    CHECK(rc == 0 || rc == -1, "apply returns 0 or -1");
    if (bad_det) {
	REACH("singular system");
	CHECK(rc == -1 && ghost_err_calls == 1 && ghost_err_category == VNAERR_MATH,
		"a singular system is reported once as a math error");
    } else {
	REACH("apply succeeded");
	CHECK(rc == 0 && ghost_err_calls == 0, "a regular request succeeds silently");
	CHECK(ghost_kernel_calls == N_APPLY, "one linear solve per frequency");
	CHECK(ghost_rfi_calls == N_APPLY * terms, "every error term interpolated once per frequency");
	CHECK(vnadata_get_type(vdp) == VPT_S && vnadata_get_rows(vdp) == NP &&
		vnadata_get_columns(vdp) == NP && vnadata_get_frequencies(vdp) == N_APPLY,
		"the result is an S matrix, ports x ports, one per requested frequency");
	for (int f = 0; f < N_APPLY; ++f) {
	    CHECK(vnadata_get_frequency(vdp, f) == apply_f[f], "result frequencies are the requested ones");
	    CHECK(ghost_kernel_kind[f] == (is_t ? 1 : 2),
		    "T types solve S = A^-1 B (mldivide), U and E12 types S = B A^-1 (mrdivide)");
	    for (int r = 0; r < NP; ++r)
		for (int c = 0; c < NP; ++c)
		    CHECK(creal(vnadata_get_cell(vdp, f, r, c)) == s_marker(f, r * NP + c),
			    "the solution of frequency f, cell (r,c) is stored at frequency f, cell (r,c)");
#if defined(CHECK_FORM_T8) || defined(CHECK_FORM_U8)
	    /* the system handed to the kernel is the documented one for the terms OF THIS FREQUENCY */
	    for (int r = 0; r < NP; ++r)
		for (int c = 0; c < NP; ++c) {
		    double mm = m_value(r * NP + c, f);

		    /* TE10 / UE10: the outside leakage term of that cell (off-diagonal, row-major) is subtracted first */
		    if (VL_HAS_OUTSIDE_LEAKAGE_TERMS(&vl) && r != c)
			mm -= t_marker(f, VL_EL_OFFSET(&vl) + (r == 0 ? 0 : 1));
#ifdef CHECK_FORM_T8
		    double ts = t_marker(f, VL_TS_OFFSET(&vl) + r), ti = t_marker(f, VL_TI_OFFSET(&vl) + r);
		    double tx = t_marker(f, VL_TX_OFFSET(&vl) + c), tm = t_marker(f, VL_TM_OFFSET(&vl) + c);

		    CHECK(ghost_a[f][r * NP + c] == (r == c ? ts : 0.0) - mm * tx, "A = Ts - M Tx with this frequency's terms and measurements");
		    CHECK(ghost_b[f][r * NP + c] == mm * tm - (r == c ? ti : 0.0), "B = M Tm - Ti with this frequency's terms and measurements");
#else
		    double us = t_marker(f, VL_US_OFFSET(&vl) + r), ui = t_marker(f, VL_UI_OFFSET(&vl) + r);
		    double ux = t_marker(f, VL_UX_OFFSET(&vl) + r), um = t_marker(f, VL_UM_OFFSET(&vl) + r);

		    CHECK(ghost_a[f][r * NP + c] == mm * ux + (r == c ? us : 0.0), "A = Ux M + Us with this frequency's terms and measurements");
		    CHECK(ghost_b[f][r * NP + c] == mm * um + (r == c ? ui : 0.0), "B = Um M + Ui with this frequency's terms and measurements");
#endif
		}
#endif
	}
    }
#endif
    ghost_calp = NULL;
    vnadata_free(vdp);
    vnacal_free(vcp);
    /* --memory-leak-check */
}

#ifdef VERIF_NATIVE
int main(void) { HARNESS(); return 0; }
#endif

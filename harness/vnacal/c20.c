/*
 * C20 / C18 / C03 harnesses on a REAL vnacal_new_t built through the real
 * API (vnacal_create, vnacal_new_alloc, vnacal_new_set_frequency_vector,
 * vnacal_new_add_*): concrete calibration type/dimensions and standards per
 * run, every measured value symbolic.
 */
#include "wf_vnacal.h"

/* ASSUMED CONTRACT (property tree: C13) */
int vnaproperty_delete(vnaproperty_t **rootptr, const char *format, ...)
{
    (void)format;
    *rootptr = NULL;
    return 0;
}

/* equation-count invariant of a vnacal_new_t (C20): counts equal list lengths */
static _Bool wf_counts(const vnacal_new_t *vnp)
{
    int total = 0, max = 0, standards = 0;

    for (int s = 0; s < 4; ++s) {
	if (s < vnp->vn_systems) {
	    const vnacal_new_system_t *sys = &vnp->vn_system_vector[s];
	    const vnacal_new_equation_t *e = sys->vns_equation_list;
	    int n = 0;

	    for (int k = 0; k < 12; ++k) {
		if (e != NULL) {
		    ++n;
		    e = e->vne_next;
		}
	    }
	    if (e != NULL || n != sys->vns_equation_count)
		return 0;
	    total += n;
	    if (n > max)
		max = n;
	}
    }
    {
	const vnacal_new_measurement_t *m = vnp->vn_measurement_list;

	for (int k = 0; k < 8; ++k)
	    if (m != NULL) {
		++standards;
		m = m->vnm_next;
	    }
	if (m != NULL)
	    return 0;
    }
    return vnp->vn_systems <= 4 && total == vnp->vn_equations &&
	max == vnp->vn_max_equations && standards == vnp->vn_measurement_count;
}

#ifndef CAL_TYPE
#define CAL_TYPE VNACAL_T8
#define CAL_ROWS 2
#define CAL_COLS 2
#endif

void h_add_counts(void)
{
    IN(double, m11a);
    IN(double, m11b);
    IN(int, bad_handle);
    double f[1] = { 1.0e9 };
    double complex v1[1], v2[1];
    double complex *m1[1] = { v1 }, *m2[1] = { v2 };
    vnacal_t *vcp;
    vnacal_new_t *vnp;
    int eq0, rc;

    v1[0] = m11a; v2[0] = m11b;
    ghost_err_reset();
    vcp = vnacal_create(verif_error_fn, NULL);
    ASSUME(vcp != NULL);
    vnp = vnacal_new_alloc(vcp, CAL_TYPE, CAL_ROWS, CAL_COLS, 1);
    ASSUME(vnp != NULL);
    ASSUME(vnacal_new_set_frequency_vector(vnp, f) == 0);
    CHECK(wf_counts(vnp) && vnp->vn_equations == 0, "a new calibration has no equations");

    rc = vnacal_new_add_single_reflect_m(vnp, m1, 1, 1, VNACAL_SHORT, 1);
    REACH("first standard added");
    CHECK(rc == 0 && ghost_err_calls == 0, "a valid reflect standard is accepted silently");
    CHECK(wf_counts(vnp), "equation counts equal the list lengths after an accepted standard");
    CHECK(vnp->vn_measurement_count == 1 && vnp->vn_equations >= 1,
	    "the accepted standard is recorded and contributes equations");
    eq0 = vnp->vn_equations;

    /* a refused standard (invalid handle, symbolic) adds nothing */
    ASSUME(bad_handle < 0 || bad_handle >= 3);
#ifdef BAD_HANDLE
    ASSUME(bad_handle == BAD_HANDLE); bad_handle = BAD_HANDLE;	/* a symbolic hash key does not finish */
#endif
    rc = vnacal_new_add_single_reflect_m(vnp, m2, 1, 1, bad_handle, 2);
    REACH("second standard refused");
    CHECK(rc == -1 && ghost_err_calls == 1 && ghost_err_category == VNAERR_USAGE && errno == EINVAL,
	    "an invalid parameter handle is refused once with EINVAL");
    CHECK(wf_counts(vnp) && vnp->vn_equations == eq0 && vnp->vn_measurement_count == 1,
	    "a rejected standard adds nothing (counts, lists unchanged)");

    rc = vnacal_new_add_single_reflect_m(vnp, m2, 1, 1, VNACAL_OPEN, 2);
    CHECK(rc == 0 && wf_counts(vnp) && vnp->vn_equations > eq0 && vnp->vn_measurement_count == 2,
	    "adding the missing standard afterwards works and the counts grow");
    vnacal_new_free(vnp);
    vnacal_free(vcp);
    /* --memory-leak-check: nothing allocated by the library remains */
}

/*
 * Too few standards: vnacal_new_solve fails with EDOM (one MATH report),
 * leaves the vnacal_new_t as it was (counts, no calibration installed),
 * and nothing leaks - with and without the measurement-error model.
 */
void h_solve_too_few(void)
{
    IN(double, m11a);
    IN(double, nf);
    double f[1] = { 1.0e9 };
    double complex v1[1];
    double complex *m1[1] = { v1 };
    double nfv[1];
    vnacal_t *vcp;
    vnacal_new_t *vnp;
    int eq0, rc;

    v1[0] = m11a;
    ghost_err_reset();
    vcp = vnacal_create(verif_error_fn, NULL);
    ASSUME(vcp != NULL);
    vnp = vnacal_new_alloc(vcp, CAL_TYPE, CAL_ROWS, CAL_COLS, 1);
    ASSUME(vnp != NULL);
    ASSUME(vnacal_new_set_frequency_vector(vnp, f) == 0);
    ASSUME(vnacal_new_add_single_reflect_m(vnp, m1, 1, 1, VNACAL_SHORT, 1) == 0);
#ifdef WITH_M_ERROR
    ASSUME(nf > 0.0);
    nfv[0] = nf;
    ASSUME(vnacal_new_set_m_error(vnp, NULL, 1, nfv, NULL) == 0);
#else
    (void)nf; (void)nfv;
#endif
    eq0 = vnp->vn_equations;
    CHECK(ghost_err_calls == 0, "set-up is silent");

    rc = vnacal_new_solve(vnp);
    REACH("solve returned");
    CHECK(rc == -1, "fewer equations than unknown error terms: solve fails");
    CHECK(ghost_err_calls == 1 && ghost_err_category == VNAERR_MATH && errno == EDOM,
	    "the failure is reported once as a math error (EDOM)");
    CHECK(vnp->vn_calibration == NULL, "no calibration is invented");
    CHECK(wf_counts(vnp) && vnp->vn_equations == eq0 && vnp->vn_measurement_count == 1,
	    "the accumulated standards are untouched: solve can be retried after adding more");
    vnacal_new_free(vnp);
    vnacal_free(vcp);
    /* --memory-leak-check */
}


/*
 * Unevenly supplied column systems (E12 / UE14): each measurement column is
 * its own linear system.  Column 2 has all it needs (three reflects on port
 * 2 and the through), column 1 has only the through and one reflect: fewer
 * equations than unknown error terms.  vnacal_new_solve must fail with EDOM
 * whatever the numeric kernels say about the systems they are handed --
 * the linear kernels are the ASSUMED CONTRACTS below (any rank up to
 * min(rows, columns), any determinant), so the verdict is for all data.
 */
#ifdef KERNEL_CONTRACTS
int _vnacommon_qrsolve(complex double *x, complex double *a,
	complex double *b, int m, int n, int o)
{
    int rank = nondet_int();

    (void)a; (void)b;
    __CPROVER_assume(rank >= 0 && rank <= (m < n ? m : n));
    for (int i = 0; i < n * o; ++i)
	x[i] = nondet_double();
    return rank;
}

double complex _vnacommon_mldivide(complex double *x, complex double *a,
	const double complex *b, int m, int n)
{
    (void)a; (void)b;
    for (int i = 0; i < m * n; ++i)
	x[i] = nondet_double();
    return nondet_double();
}

/* ASSUMED CONTRACTS: QR factorisation and its solve step produce some matrices / some solution */
int _vnacommon_qr(complex double *a, complex double *q, complex double *r, int rows, int columns)
{
    int rank = nondet_int();

    (void)a;
    __CPROVER_assume(rank >= 0 && rank <= (rows < columns ? rows : columns));
    for (int i = 0; i < rows * rows; ++i)
	q[i] = nondet_double();
    for (int i = 0; i < rows * columns; ++i)
	r[i] = nondet_double();
    return rank;
}

void _vnacommon_qrsolve2(double complex *x, const double complex *q,
	const double complex *r, const double complex *b, int m, int n, int o)
{
    (void)q; (void)r; (void)b; (void)m;
    for (int i = 0; i < n * o; ++i)
	x[i] = nondet_double();
}
#endif

/*
 * Unknown standard parameters count as unknowns: a through, short and open
 * on port 1 and TWO unknown reflects on port 2 of a 2x2 T8 calibration give
 * 8 equations for 7 error terms + 2 parameters.  vnacal_new_solve must fail
 * with EDOM (and stay usable), whatever the numeric kernels would return.
 */
void h_solve_too_few_unknown(void)
{
    IN_ARR(double, mv, 8);
    double f[1] = { 1.0e9 };
    double complex c[8];
    double complex *r1[1] = { &c[0] }, *r2[1] = { &c[1] }, *r3[1] = { &c[2] }, *r4[1] = { &c[3] };
    double complex *t[4] = { &c[4], &c[5], &c[6], &c[7] };
    vnacal_t *vcp;
    vnacal_new_t *vnp;
    int ua, ub, eq0, rc;

    for (int i = 0; i < 8; ++i)
	c[i] = mv[i];
    ghost_err_reset();
    vcp = vnacal_create(verif_error_fn, NULL);
    ASSUME(vcp != NULL);
    ua = vnacal_make_unknown_parameter(vcp, VNACAL_SHORT);
    ub = vnacal_make_unknown_parameter(vcp, VNACAL_OPEN);
    ASSUME(ua == 3 && ub == 4);
    vnp = vnacal_new_alloc(vcp, CAL_TYPE, 2, 2, 1);
    ASSUME(vnp != NULL);
    ASSUME(vnacal_new_set_frequency_vector(vnp, f) == 0);
    ASSUME(vnacal_new_set_iteration_limit(vnp, 1) == 0);
    ASSUME(vnacal_new_add_through_m(vnp, t, 2, 2, 1, 2) == 0);
    ASSUME(vnacal_new_add_single_reflect_m(vnp, r1, 1, 1, VNACAL_SHORT, 1) == 0);
    ASSUME(vnacal_new_add_single_reflect_m(vnp, r2, 1, 1, VNACAL_OPEN, 1) == 0);
    ASSUME(vnacal_new_add_single_reflect_m(vnp, r3, 1, 1, ua, 2) == 0);
    ASSUME(vnacal_new_add_single_reflect_m(vnp, r4, 1, 1, ub, 2) == 0);
    CHECK(wf_counts(vnp) && vnp->vn_unknown_parameters == 2, "two unknown standard parameters, counts match the lists");
    ASSUME(vnp->vn_systems == 1 &&
	    vnp->vn_equations >= vnp->vn_layout.vl_t_terms - 1 &&
	    vnp->vn_equations < vnp->vn_layout.vl_t_terms - 1 + 2);
    REACH("enough equations for the error terms but not for the unknown parameters too");
    eq0 = vnp->vn_equations;
    CHECK(ghost_err_calls == 0, "set-up is silent");

    rc = vnacal_new_solve(vnp);
    REACH("solve returned");
    CHECK(rc == -1, "fewer equations than error terms plus unknown standard parameters: solve fails");
    CHECK(ghost_err_calls == 1 && ghost_err_category == VNAERR_MATH && errno == EDOM,
	    "the failure is reported once as a math error (EDOM)");
    CHECK(vnp->vn_calibration == NULL, "no calibration is invented");
    CHECK(wf_counts(vnp) && vnp->vn_equations == eq0 && vnp->vn_measurement_count == 5,
	    "the accumulated standards are untouched");
    vnacal_new_free(vnp);
    (void)vnacal_delete_parameter(vcp, ua);
    (void)vnacal_delete_parameter(vcp, ub);
    vnacal_free(vcp);
}

void h_solve_uneven(void)
{
    IN_ARR(double, mv, 8);
    double f[1] = { 1.0e9 };
    double complex c[8];
    double complex *r1[1] = { &c[0] }, *r2[1] = { &c[1] }, *r3[1] = { &c[2] }, *r4[1] = { &c[3] };
    double complex *t[4] = { &c[4], &c[5], &c[6], &c[7] };
    vnacal_t *vcp;
    vnacal_new_t *vnp;
    int unknowns, eq0, rc;

    for (int i = 0; i < 8; ++i)
	c[i] = mv[i];
    ghost_err_reset();
    vcp = vnacal_create(verif_error_fn, NULL);
    ASSUME(vcp != NULL);
    vnp = vnacal_new_alloc(vcp, CAL_TYPE, 2, 2, 1);
    ASSUME(vnp != NULL);
    ASSUME(vnacal_new_set_frequency_vector(vnp, f) == 0);
    ASSUME(vnacal_new_add_single_reflect_m(vnp, r1, 1, 1, VNACAL_SHORT, 2) == 0);
    ASSUME(vnacal_new_add_single_reflect_m(vnp, r2, 1, 1, VNACAL_OPEN, 2) == 0);
    ASSUME(vnacal_new_add_single_reflect_m(vnp, r3, 1, 1, VNACAL_MATCH, 2) == 0);
    ASSUME(vnacal_new_add_through_m(vnp, t, 2, 2, 1, 2) == 0);
    ASSUME(vnacal_new_add_single_reflect_m(vnp, r4, 1, 1, VNACAL_SHORT, 1) == 0);
    unknowns = vnp->vn_layout.vl_t_terms - 1;
    CHECK(wf_counts(vnp) && vnp->vn_systems == 2, "two column systems, counts match the lists");
    /* the scenario is what the comment says (reach-probed, not assumed away) */
    ASSUME(vnp->vn_system_vector[0].vns_equation_count < unknowns &&
	   vnp->vn_system_vector[1].vns_equation_count >= unknowns);
    REACH("column 1 is short of equations while column 2 has enough");
    eq0 = vnp->vn_equations;
    CHECK(ghost_err_calls == 0, "set-up is silent");

    rc = vnacal_new_solve(vnp);
    REACH("solve returned");
    CHECK(rc == -1, "a column system with fewer equations than unknown error terms: solve fails");
    CHECK(ghost_err_calls == 1 && ghost_err_category == VNAERR_MATH && errno == EDOM,
	    "the failure is reported once as a math error (EDOM)");
    CHECK(vnp->vn_calibration == NULL, "no calibration is invented");
    CHECK(wf_counts(vnp) && vnp->vn_equations == eq0 && vnp->vn_measurement_count == 5,
	    "the accumulated standards are untouched");
    vnacal_new_free(vnp);
    vnacal_free(vcp);
}

/*
 * C01, leakage terms outside the linear system (TE10, UE10, UE14, E12): at
 * each frequency the leakage term of an off-diagonal cell is the average of
 * the measurements of that cell over the standards whose two ports are NOT
 * connected through the standard - connected meaning joined by a chain of
 * non-zero S cells, not merely "S of that cell is non-zero".
 *   standard A: 3-port divider, S12 S13 (and transposes) non-zero, S23 = S32
 *               = 0: ports 2 and 3 are connected through port 1 -> no cell
 *               of A is a leakage sample;
 *   standard B: shorts on ports 1 and 2, port 3 open-circuited (unused): no
 *               two ports connected -> every measured off-diagonal cell of B
 *               is a leakage sample.
 */
void h_leakage_samples(void)
{
    IN_ARR(double, ma, 9);
    IN_ARR(double, mb, 9);
    static double f[1] = { 1.0e9 };
    double complex ca[9], cb[9];
    double complex *mA[9], *mB[9];
    vnacal_t *vcp;
    vnacal_new_t *vnp;
    vnacal_new_solve_state_t vnss;
    int t12, t13, refl, sA[9], sB[4], mapB[2] = { 1, 2 };

    for (int i = 0; i < 9; ++i) {
	ASSUME(ma[i] == ma[i] && mb[i] == mb[i]);	/* no NaN: sums are compared with == */
	ca[i] = ma[i]; cb[i] = mb[i];
	mA[i] = &ca[i]; mB[i] = &cb[i];
    }
    ghost_err_reset();
    vcp = vnacal_create(verif_error_fn, NULL);
    ASSUME(vcp != NULL);
    t12 = vnacal_make_scalar_parameter(vcp, 0.5);
    t13 = vnacal_make_scalar_parameter(vcp, 0.25);
    refl = vnacal_make_scalar_parameter(vcp, 0.125);
    ASSUME(t12 == 3 && t13 == 4 && refl == 5);
    sA[0] = refl; sA[1] = t12;         sA[2] = t13;
    sA[3] = t12;  sA[4] = refl;        sA[5] = VNACAL_ZERO;
    sA[6] = t13;  sA[7] = VNACAL_ZERO; sA[8] = refl;
    sB[0] = VNACAL_SHORT; sB[1] = VNACAL_ZERO; sB[2] = VNACAL_ZERO; sB[3] = VNACAL_SHORT;
    vnp = vnacal_new_alloc(vcp, CAL_TYPE, 3, 3, 1);
    ASSUME(vnp != NULL);
    ASSUME(vnacal_new_set_frequency_vector(vnp, f) == 0);
    ASSUME(vnacal_new_add_mapped_matrix_m(vnp, mA, 3, 3, sA, 3, 3, NULL) == 0);
    ASSUME(vnacal_new_add_mapped_matrix_m(vnp, mB, 3, 3, sB, 2, 2, mapB) == 0);
    CHECK(ghost_err_calls == 0, "set-up is silent");
    ASSUME(vs_init(&vnss, vnp) == 0);
    ASSUME(vs_start_frequency(&vnss, 0) == 0);
    REACH("leakage samples accumulated");
    CHECK(vnss.vnss_leakage_matrix != NULL, "this type keeps leakage terms outside the linear system");
    if (vnss.vnss_leakage_matrix != NULL) {
	for (int r = 0; r < 3; ++r)
	    for (int c = 0; c < 3; ++c) {
		int cell = r * 3 + c;
		const vnacal_new_leakage_term_t *lt = vnss.vnss_leakage_matrix[cell];

		if (r == c)
		    continue;
		CHECK(lt != NULL && lt->vnlt_count == 1,
			"exactly the standards whose two ports are not connected through the standard contribute a leakage sample");
		if (lt != NULL && lt->vnlt_count == 1)
		    CHECK(creal(lt->vnlt_sum) == mb[cell],
			    "the sample is that standard's measurement of that cell");
	    }
    }
    vs_free(&vnss);
    vnacal_new_free(vnp);
    (void)vnacal_delete_parameter(vcp, t12);
    (void)vnacal_delete_parameter(vcp, t13);
    (void)vnacal_delete_parameter(vcp, refl);
    vnacal_free(vcp);
}

/*
 * C11 / C20: a refused standard adds NOTHING - also no unknown parameter.
 * vnacal_new_add_double_reflect_m(u, bad): the first reflection parameter is
 * a valid unknown, the second handle is invalid.  The call must fail with one
 * usage report and leave the number of unknown parameters (which the
 * "enough equations" tests of the solvers count) as it was.
 */
void h_refused_unknown(void)
{
    IN_ARR(double, mv, 4);
    double f[1] = { 1.0e9 };
    double complex c[4];
    double complex *m[4] = { &c[0], &c[1], &c[2], &c[3] };
    vnacal_t *vcp;
    vnacal_new_t *vnp;
    int u, u2, rc, eq0, unk0, hash0, hold0;

    for (int i = 0; i < 4; ++i)
	c[i] = mv[i];
    ghost_err_reset();
    vcp = vnacal_create(verif_error_fn, NULL);
    ASSUME(vcp != NULL);
    u = vnacal_make_unknown_parameter(vcp, VNACAL_SHORT);
    ASSUME(u == 3);
    vnp = vnacal_new_alloc(vcp, CAL_TYPE, 2, 2, 1);
    ASSUME(vnp != NULL);
    ASSUME(vnacal_new_set_frequency_vector(vnp, f) == 0);
    eq0 = vnp->vn_equations;
    unk0 = vnp->vn_unknown_parameters;
    hash0 = vnp->vn_parameter_hash.vnph_count;
    hold0 = _vnacal_get_parameter(vcp, u)->vpmr_hold_count;
    CHECK(ghost_err_calls == 0 && unk0 == 0, "set-up is silent, no unknown parameter yet");

    rc = vnacal_new_add_double_reflect_m(vnp, m, 2, 2, u, 7 /* no such parameter */, 1, 2);
    REACH("refused double reflect returned");
    CHECK(rc == -1 && ghost_err_calls == 1 && ghost_err_category == VNAERR_USAGE && errno == EINVAL,
	    "an invalid second handle is refused once with EINVAL");
    CHECK(wf_counts(vnp) && vnp->vn_equations == eq0 && vnp->vn_measurement_count == 0,
	    "the refused standard adds no equation and no standard");
    CHECK(vnp->vn_unknown_parameters == unk0 && vnp->vn_unknown_parameter_list == NULL,
	    "the refused standard adds no unknown parameter");
    CHECK(vnp->vn_parameter_hash.vnph_count == hash0 &&
	    _vnacal_get_parameter(vcp, u)->vpmr_hold_count == hold0,
	    "nor any other trace of the parameters it named (hash count, hold count)");
    CHECK(vnp->vn_unknown_parameter_anchor == &vnp->vn_unknown_parameter_list,
	    "the unknown-parameter list is ready for the next standard");

    /* the same unknown in an acceptable standard: registered once, first index */
    ghost_err_reset();
    {
	/* either order: the unknown may be the parameter registered LAST before the next refusal, or not */
	IN(bool, unknown_last);

	if (unknown_last) {
	    REACH("unknown registered last");
	    rc = vnacal_new_add_double_reflect_m(vnp, m, 2, 2, VNACAL_OPEN, u, 1, 2);
	} else {
	    rc = vnacal_new_add_double_reflect_m(vnp, m, 2, 2, u, VNACAL_OPEN, 1, 2);
	}
    }
    REACH("accepted double reflect returned");
    CHECK(rc == 0 && ghost_err_calls == 0, "the corrected call is accepted silently");
    CHECK(vnp->vn_unknown_parameters == 1 && vnp->vn_unknown_parameter_list != NULL &&
	    vnp->vn_unknown_parameter_list->vnpr_unknown_index == 0 &&
	    vnp->vn_unknown_parameter_list->vnpr_next_unknown == NULL,
	    "and registers the unknown exactly once, as unknown number 0");

    /* a second refusal, now WITH an earlier unknown in place: that one stays */
    u2 = vnacal_make_unknown_parameter(vcp, VNACAL_OPEN);
    ASSUME(u2 >= 0);
    rc = vnacal_new_add_double_reflect_m(vnp, m, 2, 2, u2, 9 /* no such parameter */, 1, 2);
    CHECK(rc == -1, "a second invalid call is refused");
    CHECK(vnp->vn_unknown_parameters == 1 && vnp->vn_unknown_parameter_list != NULL &&
	    vnp->vn_unknown_parameter_list->vnpr_parameter == _vnacal_get_parameter(vcp, u) &&
	    vnp->vn_unknown_parameter_list->vnpr_next_unknown == NULL &&
	    vnp->vn_unknown_parameter_anchor == &vnp->vn_unknown_parameter_list->vnpr_next_unknown,
	    "the unknown registered by the accepted standard is kept, the refused one is not added");
    CHECK(wf_counts(vnp), "counts still agree with the lists");
    vnacal_new_free(vnp);
    (void)vnacal_delete_parameter(vcp, u);
    (void)vnacal_delete_parameter(vcp, u2);
    vnacal_free(vcp);
    /* --memory-leak-check: nodes removed by the roll-back are freed, parameters released */
}

/*
 * C11: a refused vnacal_new_set_frequency_vector changes nothing.  A standard
 * with a vector parameter defined over 1..2 GHz is in use; a new frequency
 * vector of 3..5 GHz is not covered by it and must be refused (one usage
 * report, EINVAL) with the calibration's frequencies exactly as they were.
 */
void h_refused_set_frequency(void)
{
    IN(double, mval);
    double f_ok[2] = { 1.0e9, 2.0e9 }, f_bad[2] = { 3.0e9, 5.0e9 };
    double pf[2] = { 1.0e9, 2.0e9 };
    double complex pg[2] = { -1.0, -1.0 };
    double complex v[2];
    double complex *m1[1] = { v };
    vnacal_t *vcp;
    vnacal_new_t *vnp;
    int p, rc;

    v[0] = v[1] = mval;
    ghost_err_reset();
    vcp = vnacal_create(verif_error_fn, NULL);
    ASSUME(vcp != NULL);
    p = vnacal_make_vector_parameter(vcp, pf, 2, pg);
    ASSUME(p == 3);
    vnp = vnacal_new_alloc(vcp, CAL_TYPE, 1, 1, 2);
    ASSUME(vnp != NULL);
    ASSUME(vnacal_new_set_frequency_vector(vnp, f_ok) == 0);
    ASSUME(vnacal_new_add_single_reflect_m(vnp, m1, 1, 1, p, 1) == 0);
    CHECK(ghost_err_calls == 0, "set-up is silent");

    rc = vnacal_new_set_frequency_vector(vnp, f_bad);
    REACH("refused set_frequency_vector returned");
    CHECK(rc == -1 && ghost_err_calls == 1 && ghost_err_category == VNAERR_USAGE && errno == EINVAL,
	    "frequencies not covered by a standard in use are refused once with EINVAL");
    CHECK(vnp->vn_frequencies_valid && vnp->vn_frequency_vector[0] == f_ok[0] &&
	    vnp->vn_frequency_vector[1] == f_ok[1],
	    "the refused call leaves the calibration's frequencies as they were");
    CHECK(vnp->vn_measurement_count == 1 && wf_counts(vnp), "and the standards too");
    vnacal_new_free(vnp);
    (void)vnacal_delete_parameter(vcp, p);
    vnacal_free(vcp);
}

/*
 * The TRL short-cut test (_vnacal_new_solve_is_trl / classify_standard) runs
 * at every solve of a 2x2 T8/U8/TE10/UE10 calibration with exactly three
 * standards and two unknown parameters - e.g. in the "solve after each
 * addition" flow of C20.  It must classify ANY such set of standards without
 * touching unspecified S cells, and say "TRL" only for through + reflect (the
 * same unknown on both ports) + line (unknown transmission, zero reflection).
 */
#ifndef TRL_VARIANT
#define TRL_VARIANT 0
#endif
void h_is_trl(void)
{
    IN_ARR(double, mv, 4);
    double f[1] = { 1.0e9 };
    double complex c[4];
    double complex *m[4] = { &c[0], &c[1], &c[2], &c[3] };
    double complex *m1[1] = { &c[0] };
    vnacal_t *vcp;
    vnacal_new_t *vnp;
    vnacal_new_trl_indices_t vnti;
    int g1, g2, r, l, line[4];
    _Bool is;

    for (int i = 0; i < 4; ++i)
	c[i] = mv[i];
    ghost_err_reset();
    vcp = vnacal_create(verif_error_fn, NULL);
    ASSUME(vcp != NULL);
    g1 = vnacal_make_scalar_parameter(vcp, -0.5);
    g2 = vnacal_make_scalar_parameter(vcp, 0.25);
    r = vnacal_make_unknown_parameter(vcp, g1);
    l = vnacal_make_unknown_parameter(vcp, g2);
    ASSUME(g1 == 3 && g2 == 4 && r == 5 && l == 6);
    line[0] = VNACAL_ZERO; line[1] = l; line[2] = l; line[3] = VNACAL_ZERO;
    vnp = vnacal_new_alloc(vcp, CAL_TYPE, 2, 2, 1);
    ASSUME(vnp != NULL);
    ASSUME(vnacal_new_set_frequency_vector(vnp, f) == 0);
    ASSUME(vnacal_new_add_through_m(vnp, m, 2, 2, 1, 2) == 0);
#if TRL_VARIANT == 0		/* proper TRL: reflect is the same unknown on both ports */
    ASSUME(vnacal_new_add_double_reflect_m(vnp, m, 2, 2, r, r, 1, 2) == 0);
#elif TRL_VARIANT == 1		/* single reflect on port 2, full M: S11 unspecified */
    ASSUME(vnacal_new_add_single_reflect_m(vnp, m, 2, 2, r, 2) == 0);
#elif TRL_VARIANT == 2		/* single reflect on port 1, 1x1 M: three cells unspecified */
    ASSUME(vnacal_new_add_single_reflect_m(vnp, m1, 1, 1, r, 1) == 0);
#elif TRL_VARIANT == 3		/* double reflect with DIFFERENT reflections: unknown on port 1, known short on port 2 */
    ASSUME(vnacal_new_add_double_reflect_m(vnp, m, 2, 2, r, VNACAL_SHORT, 1, 2) == 0);
#elif TRL_VARIANT == 4		/* the same with the ports exchanged */
    ASSUME(vnacal_new_add_double_reflect_m(vnp, m, 2, 2, VNACAL_SHORT, r, 1, 2) == 0);
#endif
    ASSUME(vnacal_new_add_line_m(vnp, m, 2, 2, line, 1, 2) == 0);
    ASSUME(vnp->vn_measurement_count == 3 && vnp->vn_unknown_parameters == 2);
    CHECK(ghost_err_calls == 0, "set-up is silent");

    is = _vnacal_new_solve_is_trl(vnp, &vnti);
    REACH("is_trl returned");
#if TRL_VARIANT == 0
    CHECK(is && vnti.vnti_t_standard == 0 && vnti.vnti_r_standard == 1 && vnti.vnti_l_standard == 2,
	    "through + reflect + line is recognised with the standards in the order given");
    CHECK(vnti.vnti_r_unknown != vnti.vnti_l_unknown && vnti.vnti_r_unknown >= 0 && vnti.vnti_l_unknown >= 0 &&
	    vnti.vnti_r_unknown < 2 && vnti.vnti_l_unknown < 2, "the two unknowns are told apart");
#else
    CHECK(!is, "a reflect that is not the SAME unknown on both ports is not the TRL reflect: the general method is used");
#endif
    CHECK(ghost_err_calls == 0, "classification is silent");
    vnacal_new_free(vnp);
    (void)vnacal_delete_parameter(vcp, r);
    (void)vnacal_delete_parameter(vcp, l);
    (void)vnacal_delete_parameter(vcp, g1);
    (void)vnacal_delete_parameter(vcp, g2);
    vnacal_free(vcp);
}

/*
 * C03: a standard with an UNKNOWN reflect parameter on one port of a 2x2
 * calibration leaves the other S cells unspecified (NULL);
 * _vnacal_new_solve_update_s_matrices, which patches the current values of
 * the unknown parameters into the per-standard S matrices, must cope with
 * those cells.
 */
void h_update_s_partial(void)
{
    IN(double, m11a);
    double f[1] = { 1.0e9 };
    double complex v1[1];
    double complex *m1[1] = { v1 };
    vnacal_t *vcp;
    vnacal_new_t *vnp;
    vnacal_new_solve_state_t vnss;
    int unknown;

    v1[0] = m11a;
    ghost_err_reset();
    vcp = vnacal_create(verif_error_fn, NULL);
    ASSUME(vcp != NULL);
    unknown = vnacal_make_unknown_parameter(vcp, VNACAL_SHORT);
    ASSUME(unknown == 3);
    vnp = vnacal_new_alloc(vcp, CAL_TYPE, CAL_ROWS, CAL_COLS, 1);
    ASSUME(vnp != NULL);
    ASSUME(vnacal_new_set_frequency_vector(vnp, f) == 0);
    ASSUME(vnacal_new_add_single_reflect_m(vnp, m1, 1, 1, unknown, 1) == 0);
    ASSUME(vs_init(&vnss, vnp) == 0);
    ASSUME(vs_start_frequency(&vnss, 0) == 0);
    vs_update_s_matrices(&vnss);
    REACH("update_s_matrices returned");
    CHECK(ghost_err_calls == 0, "no error is reported");
    vs_free(&vnss);
    vnacal_new_free(vnp);
    vnacal_free(vcp);
}

#ifdef VERIF_NATIVE
int main(void) { HARNESS(); return 0; }
#endif

/*
 * C20 / C18 / C03 harnesses on a REAL vnacal_new_t built through the real
 * API (vnacal_create, vnacal_new_alloc, vnacal_new_set_frequency_vector,
 * vnacal_new_add_*): concrete calibration type/dimensions and standards per
 * run, every measured value symbolic.
 */
#include "wf_vnacal.h"

/* ASSUMED CONTRACT (property tree: C13) */
int vnaproperty_delete(vnaproperty_t **rootptr, const char *format, ...)
{
    (void)format;
    *rootptr = NULL;
    return 0;
}

/* equation-count invariant of a vnacal_new_t (C20): counts equal list lengths */
static _Bool wf_counts(const vnacal_new_t *vnp)
{
    int total = 0, max = 0, standards = 0;

    for (int s = 0; s < 4; ++s) {
	if (s < vnp->vn_systems) {
	    const vnacal_new_system_t *sys = &vnp->vn_system_vector[s];
	    const vnacal_new_equation_t *e = sys->vns_equation_list;
	    int n = 0;

	    for (int k = 0; k < 12; ++k) {
		if (e != NULL) {
		    ++n;
		    e = e->vne_next;
		}
	    }
	    if (e != NULL || n != sys->vns_equation_count)
		return 0;
	    total += n;
	    if (n > max)
		max = n;
	}
    }
    {
	const vnacal_new_measurement_t *m = vnp->vn_measurement_list;

	for (int k = 0; k < 8; ++k)
	    if (m != NULL) {
		++standards;
		m = m->vnm_next;
	    }
	if (m != NULL)
	    return 0;
    }
    return vnp->vn_systems <= 4 && total == vnp->vn_equations &&
	max == vnp->vn_max_equations && standards == vnp->vn_measurement_count;
}

#ifndef CAL_TYPE
#define CAL_TYPE VNACAL_T8
#define CAL_ROWS 2
#define CAL_COLS 2
#endif

void h_add_counts(void)
{
    IN(double, m11a);
    IN(double, m11b);
    IN(int, bad_handle);
    double f[1] = { 1.0e9 };
    double complex v1[1], v2[1];
    double complex *m1[1] = { v1 }, *m2[1] = { v2 };
    vnacal_t *vcp;
    vnacal_new_t *vnp;
    int eq0, rc;

    v1[0] = m11a; v2[0] = m11b;
    ghost_err_reset();
    vcp = vnacal_create(verif_error_fn, NULL);
    ASSUME(vcp != NULL);
    vnp = vnacal_new_alloc(vcp, CAL_TYPE, CAL_ROWS, CAL_COLS, 1);
    ASSUME(vnp != NULL);
    ASSUME(vnacal_new_set_frequency_vector(vnp, f) == 0);
    CHECK(wf_counts(vnp) && vnp->vn_equations == 0, "a new calibration has no equations");

    rc = vnacal_new_add_single_reflect_m(vnp, m1, 1, 1, VNACAL_SHORT, 1);
    REACH("first standard added");
    CHECK(rc == 0 && ghost_err_calls == 0, "a valid reflect standard is accepted silently");
    CHECK(wf_counts(vnp), "equation counts equal the list lengths after an accepted standard");
    CHECK(vnp->vn_measurement_count == 1 && vnp->vn_equations >= 1,
	    "the accepted standard is recorded and contributes equations");
    eq0 = vnp->vn_equations;

    /* a refused standard (invalid handle, symbolic) adds nothing */
    ASSUME(bad_handle < 0 || bad_handle >= 3);
#ifdef BAD_HANDLE
    ASSUME(bad_handle == BAD_HANDLE); bad_handle = BAD_HANDLE;	/* a symbolic hash key does not finish */
#endif
    rc = vnacal_new_add_single_reflect_m(vnp, m2, 1, 1, bad_handle, 2);
    REACH("second standard refused");
    CHECK(rc == -1 && ghost_err_calls == 1 && ghost_err_category == VNAERR_USAGE && errno == EINVAL,
	    "an invalid parameter handle is refused once with EINVAL");
    CHECK(wf_counts(vnp) && vnp->vn_equations == eq0 && vnp->vn_measurement_count == 1,
	    "a rejected standard adds nothing (counts, lists unchanged)");

    rc = vnacal_new_add_single_reflect_m(vnp, m2, 1, 1, VNACAL_OPEN, 2);
    CHECK(rc == 0 && wf_counts(vnp) && vnp->vn_equations > eq0 && vnp->vn_measurement_count == 2,
	    "adding the missing standard afterwards works and the counts grow");
    vnacal_new_free(vnp);
    vnacal_free(vcp);
    /* --memory-leak-check: nothing allocated by the library remains */
}

/*
 * Too few standards: vnacal_new_solve fails with EDOM (one MATH report),
 * leaves the vnacal_new_t as it was (counts, no calibration installed),
 * and nothing leaks - with and without the measurement-error model.
 */
void h_solve_too_few(void)
{
    IN(double, m11a);
    IN(double, nf);
    double f[1] = { 1.0e9 };
    double complex v1[1];
    double complex *m1[1] = { v1 };
    double nfv[1];
    vnacal_t *vcp;
    vnacal_new_t *vnp;
    int eq0, rc;

    v1[0] = m11a;
    ghost_err_reset();
    vcp = vnacal_create(verif_error_fn, NULL);
    ASSUME(vcp != NULL);
    vnp = vnacal_new_alloc(vcp, CAL_TYPE, CAL_ROWS, CAL_COLS, 1);
    ASSUME(vnp != NULL);
    ASSUME(vnacal_new_set_frequency_vector(vnp, f) == 0);
    ASSUME(vnacal_new_add_single_reflect_m(vnp, m1, 1, 1, VNACAL_SHORT, 1) == 0);
#ifdef WITH_M_ERROR
    ASSUME(nf > 0.0);
    nfv[0] = nf;
    ASSUME(vnacal_new_set_m_error(vnp, NULL, 1, nfv, NULL) == 0);
#else
    (void)nf; (void)nfv;
#endif
    eq0 = vnp->vn_equations;
    CHECK(ghost_err_calls == 0, "set-up is silent");

    rc = vnacal_new_solve(vnp);
    REACH("solve returned");
    CHECK(rc == -1, "fewer equations than unknown error terms: solve fails");
    CHECK(ghost_err_calls == 1 && ghost_err_category == VNAERR_MATH && errno == EDOM,
	    "the failure is reported once as a math error (EDOM)");
    CHECK(vnp->vn_calibration == NULL, "no calibration is invented");
    CHECK(wf_counts(vnp) && vnp->vn_equations == eq0 && vnp->vn_measurement_count == 1,
	    "the accumulated standards are untouched: solve can be retried after adding more");
    vnacal_new_free(vnp);
    vnacal_free(vcp);
    /* --memory-leak-check */
}


/*
 * Unevenly supplied column systems (E12 / UE14): each measurement column is
 * its own linear system.  Column 2 has all it needs (three reflects on port
 * 2 and the through), column 1 has only the through and one reflect: fewer
 * equations than unknown error terms.  vnacal_new_solve must fail with EDOM
 * whatever the numeric kernels say about the systems they are handed --
 * the linear kernels are the ASSUMED CONTRACTS below (any rank up to
 * min(rows, columns), any determinant), so the verdict is for all data.
 */
#ifdef KERNEL_CONTRACTS
int _vnacommon_qrsolve(complex double *x, complex double *a,
	complex double *b, int m, int n, int o)
{
    int rank = nondet_int();

    (void)a; (void)b;
    __CPROVER_assume(rank >= 0 && rank <= (m < n ? m : n));
    for (int i = 0; i < n * o; ++i)
	x[i] = nondet_double();
    return rank;
}

double complex _vnacommon_mldivide(complex double *x, complex double *a,
	const double complex *b, int m, int n)
{
    (void)a; (void)b;
    for (int i = 0; i < m * n; ++i)
	x[i] = nondet_double();
    return nondet_double();
}
#endif

void h_solve_uneven(void)
{
    IN_ARR(double, mv, 8);
    double f[1] = { 1.0e9 };
    double complex c[8];
    double complex *r1[1] = { &c[0] }, *r2[1] = { &c[1] }, *r3[1] = { &c[2] }, *r4[1] = { &c[3] };
    double complex *t[4] = { &c[4], &c[5], &c[6], &c[7] };
    vnacal_t *vcp;
    vnacal_new_t *vnp;
    int unknowns, eq0, rc;

    for (int i = 0; i < 8; ++i)
	c[i] = mv[i];
    ghost_err_reset();
    vcp = vnacal_create(verif_error_fn, NULL);
    ASSUME(vcp != NULL);
    vnp = vnacal_new_alloc(vcp, CAL_TYPE, 2, 2, 1);
    ASSUME(vnp != NULL);
    ASSUME(vnacal_new_set_frequency_vector(vnp, f) == 0);
    ASSUME(vnacal_new_add_single_reflect_m(vnp, r1, 1, 1, VNACAL_SHORT, 2) == 0);
    ASSUME(vnacal_new_add_single_reflect_m(vnp, r2, 1, 1, VNACAL_OPEN, 2) == 0);
    ASSUME(vnacal_new_add_single_reflect_m(vnp, r3, 1, 1, VNACAL_MATCH, 2) == 0);
    ASSUME(vnacal_new_add_through_m(vnp, t, 2, 2, 1, 2) == 0);
    ASSUME(vnacal_new_add_single_reflect_m(vnp, r4, 1, 1, VNACAL_SHORT, 1) == 0);
    unknowns = vnp->vn_layout.vl_t_terms - 1;
    CHECK(wf_counts(vnp) && vnp->vn_systems == 2, "two column systems, counts match the lists");
    /* the scenario is what the comment says (reach-probed, not assumed away) */
    ASSUME(vnp->vn_system_vector[0].vns_equation_count < unknowns &&
	   vnp->vn_system_vector[1].vns_equation_count >= unknowns);
    REACH("column 1 is short of equations while column 2 has enough");
    eq0 = vnp->vn_equations;
    CHECK(ghost_err_calls == 0, "set-up is silent");

    rc = vnacal_new_solve(vnp);
    REACH("solve returned");
    CHECK(rc == -1, "a column system with fewer equations than unknown error terms: solve fails");
    CHECK(ghost_err_calls == 1 && ghost_err_category == VNAERR_MATH && errno == EDOM,
	    "the failure is reported once as a math error (EDOM)");
    CHECK(vnp->vn_calibration == NULL, "no calibration is invented");
    CHECK(wf_counts(vnp) && vnp->vn_equations == eq0 && vnp->vn_measurement_count == 5,
	    "the accumulated standards are untouched");
    vnacal_new_free(vnp);
    vnacal_free(vcp);
}

/*
 * C03: a standard with an UNKNOWN reflect parameter on one port of a 2x2
 * calibration leaves the other S cells unspecified (NULL);
 * _vnacal_new_solve_update_s_matrices, which patches the current values of
 * the unknown parameters into the per-standard S matrices, must cope with
 * those cells.
 */
void h_update_s_partial(void)
{
    IN(double, m11a);
    double f[1] = { 1.0e9 };
    double complex v1[1];
    double complex *m1[1] = { v1 };
    vnacal_t *vcp;
    vnacal_new_t *vnp;
    vnacal_new_solve_state_t vnss;
    int unknown;

    v1[0] = m11a;
    ghost_err_reset();
    vcp = vnacal_create(verif_error_fn, NULL);
    ASSUME(vcp != NULL);
    unknown = vnacal_make_unknown_parameter(vcp, VNACAL_SHORT);
    ASSUME(unknown == 3);
    vnp = vnacal_new_alloc(vcp, CAL_TYPE, CAL_ROWS, CAL_COLS, 1);
    ASSUME(vnp != NULL);
    ASSUME(vnacal_new_set_frequency_vector(vnp, f) == 0);
    ASSUME(vnacal_new_add_single_reflect_m(vnp, m1, 1, 1, unknown, 1) == 0);
    ASSUME(vs_init(&vnss, vnp) == 0);
    ASSUME(vs_start_frequency(&vnss, 0) == 0);
    vs_update_s_matrices(&vnss);
    REACH("update_s_matrices returned");
    CHECK(ghost_err_calls == 0, "no error is reported");
    vs_free(&vnss);
    vnacal_new_free(vnp);
    vnacal_free(vcp);
}

#ifdef VERIF_NATIVE
int main(void) { HARNESS(); return 0; }
#endif

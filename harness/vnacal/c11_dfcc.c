/*
 * DFCC entry points for the setter contracts in contracts/c11_setters.h:
 * each harness only calls the function with unconstrained arguments; the
 * pre/postconditions and the frame are the contract's.
 */
#include "verif.h"
#include "c11_setters.h"

/* keeps the callback in the binary so that the function-pointer call has its candidate */
vnaerr_error_fn_t *verif_keep_error_fn = verif_error_fn;

void h_set_et_tolerance(void)   { vnacal_new_t *p; double t; vnacal_new_set_et_tolerance(p, t); }
void h_set_p_tolerance(void)    { vnacal_new_t *p; double t; vnacal_new_set_p_tolerance(p, t); }
void h_set_iteration_limit(void){ vnacal_new_t *p; int n;    vnacal_new_set_iteration_limit(p, n); }
void h_set_pvalue_limit(void)   { vnacal_new_t *p; double t; vnacal_new_set_pvalue_limit(p, t); }
void h_set_fprecision(void)     { vnacal_t *p; int n;        vnacal_set_fprecision(p, n); }
void h_set_dprecision(void)     { vnacal_t *p; int n;        vnacal_set_dprecision(p, n); }

/*
 * C18: the V matrices that weight the equations of an over-determined system
 * are recomputed from the current error terms for THAT system - whether or
 * not another system (UE14 / E12: one per column) is over-determined too.
 *
 * History through the real API: 2x2 calibration, through + short/open/match
 * on both ports, plus two redundant reflects on port 2 only, noise model on:
 * column system 0 is exactly determined (no V matrices), column system 1 is
 * over-determined (every standard has a V matrix for it).  The real
 * _vnacal_new_solve_update_v_matrices is called for one system; the matrix
 * inversion kernel is replaced by a RECORDING contract.
 *
 *   system 1: every standard's V matrix of system 1 is recomputed exactly once
 *             (destination = vnsm_v_matrices[1]); none of system 0 exists;
 *   system 0: nothing to recompute, no kernel call, success.
 * For the single-system types (T8 ...) the same history over-determines the
 * one system: every standard's only V matrix is recomputed.
 *
 * ASSUMED CONTRACT: _vnacommon_minverse writes an n x n result and returns a
 * nonzero determinant (what it computes: C19).
 */
#include "wf_vnacal.h"

int vnaproperty_delete(vnaproperty_t **rootptr, const char *format, ...)
{
    (void)format;
    *rootptr = NULL;
    return 0;
}

#ifndef CAL_TYPE
#define CAL_TYPE VNACAL_UE14
#endif
#ifndef V_SINDEX
#define V_SINDEX 1
#endif

#define MAXCALLS 16
static int ghost_calls;
static const double complex *ghost_dest[MAXCALLS];

double complex _vnacommon_minverse(double complex *x, double complex *a, int n)
{
    (void)a;
    CHECK(ghost_calls < MAXCALLS, "infra: more kernel calls than the harness records");
    CHECK(x != NULL, "the inverse is written to an allocated V matrix");
    if (ghost_calls < MAXCALLS)
	ghost_dest[ghost_calls] = x;
    ++ghost_calls;
    for (int i = 0; i < n * n; ++i)
	x[i] = 7.0;
    return 1.0;
}

void h_update_v(void)
{
    static double f[1] = { 1.0e9 };
    double complex one[4] = { 1.0, 1.0, 1.0, 1.0 };
    double complex *m1[1] = { &one[0] };
    double complex *mt[4] = { &one[0], &one[1], &one[2], &one[3] };
    double nfv[1] = { 1.0 };
    vnacal_t *vcp;
    vnacal_new_t *vnp;
    vnacal_new_solve_state_t vnss;
    double complex x[16];
    int unknowns, rc, expected = 0;

    ghost_err_reset();
    vcp = vnacal_create(verif_error_fn, NULL);
    ASSUME(vcp != NULL);
    vnp = vnacal_new_alloc(vcp, CAL_TYPE, 2, 2, 1);
    ASSUME(vnp != NULL);
    ASSUME(vnacal_new_set_frequency_vector(vnp, f) == 0);
    ASSUME(vnacal_new_add_through_m(vnp, mt, 2, 2, 1, 2) == 0);
    ASSUME(vnacal_new_add_single_reflect_m(vnp, m1, 1, 1, VNACAL_SHORT, 1) == 0);
    ASSUME(vnacal_new_add_single_reflect_m(vnp, m1, 1, 1, VNACAL_OPEN, 1) == 0);
    ASSUME(vnacal_new_add_single_reflect_m(vnp, m1, 1, 1, VNACAL_MATCH, 1) == 0);
    ASSUME(vnacal_new_add_single_reflect_m(vnp, m1, 1, 1, VNACAL_SHORT, 2) == 0);
    ASSUME(vnacal_new_add_single_reflect_m(vnp, m1, 1, 1, VNACAL_OPEN, 2) == 0);
    ASSUME(vnacal_new_add_single_reflect_m(vnp, m1, 1, 1, VNACAL_MATCH, 2) == 0);
    ASSUME(vnacal_new_add_single_reflect_m(vnp, m1, 1, 1, VNACAL_SHORT, 2) == 0);
    ASSUME(vnacal_new_add_single_reflect_m(vnp, m1, 1, 1, VNACAL_OPEN, 2) == 0);
    ASSUME(vnacal_new_set_m_error(vnp, NULL, 1, nfv, NULL) == 0);
    unknowns = vnp->vn_layout.vl_t_terms - 1;
    ASSUME(unknowns * vnp->vn_systems <= 16 && vnp->vn_measurement_count == 9);
    for (int i = 0; i < 16; ++i)
	x[i] = 1.0;
    ASSUME(vs_init(&vnss, vnp) == 0);
    ASSUME(vs_start_frequency(&vnss, 0) == 0);
    if (vnp->vn_systems == 2) {
	REACH("column systems: first exactly determined, second over-determined");
	CHECK(vnp->vn_system_vector[0].vns_equation_count == unknowns &&
		vnp->vn_system_vector[1].vns_equation_count > unknowns, "the history is the mixed one");
	for (int idx = 0; idx < 9; ++idx) {
	    CHECK(vnss.vnss_msv_matrices[idx].vnsm_v_matrices != NULL &&
		    vnss.vnss_msv_matrices[idx].vnsm_v_matrices[0] == NULL &&
		    vnss.vnss_msv_matrices[idx].vnsm_v_matrices[1] != NULL,
		    "V matrices exist exactly for the over-determined system");
	}
	expected = (V_SINDEX == 1) ? 9 : 0;
    } else {
	REACH("single system, over-determined");
	for (int idx = 0; idx < 9; ++idx)
	    CHECK(vnss.vnss_msv_matrices[idx].vnsm_v_matrices != NULL &&
		    vnss.vnss_msv_matrices[idx].vnsm_v_matrices[0] != NULL, "every standard has its V matrix");
	expected = 9;
    }
    ghost_err_reset();

    rc = _vnacal_new_solve_update_v_matrices("h", &vnss, (vnp->vn_systems == 2) ? V_SINDEX : 0,
	    x, unknowns);

    REACH("update_v_matrices returned");
    CHECK(rc == 0 && ghost_err_calls == 0, "with regular matrices the update succeeds silently");
    CHECK(ghost_calls == expected, "one inversion per standard that has a V matrix for the system being solved, none otherwise");
    if (expected == 9) {
	const int s = (vnp->vn_systems == 2) ? V_SINDEX : 0;

	for (int idx = 0; idx < 9; ++idx) {
	    _Bool hit = 0;

	    for (int k = 0; k < 9; ++k)
		if (ghost_dest[k] == vnss.vnss_msv_matrices[idx].vnsm_v_matrices[s])
		    hit = 1;
	    CHECK(hit, "each standard's V matrix of that system receives a recomputed inverse");
	}
    }
    vs_free(&vnss);
    vnacal_new_free(vnp);
    vnacal_free(vcp);
}

#ifdef VERIF_NATIVE
int main(void) { HARNESS(); return 0; }
#endif

/*
 * C16 harnesses: a vnacal_t is a table of named calibrations plus a table of
 * parameter handles.  Every operation is called on an arbitrary well-formed
 * table (wf_vnacal.h) and must (a) answer as the abstract table predicts,
 * (b) keep the table well formed, (c) touch no other slot.
 */
#include "wf_vnacal.h"

/* ASSUMED CONTRACT: the property tree of a calibration is freed (C13 covers the tree) */
int vnaproperty_delete(vnaproperty_t **rootptr, const char *format, ...)
{
    (void)format;
    CHECK(rootptr != NULL, "vnaproperty_delete: valid root pointer");
    *rootptr = NULL;
    return 0;
}

/* ------------------------------------------------------ add (and replace) */
void h_add_calibration(void)
{
    IN(bool, errfn);
    vnacal_t *vcp = mk_vcp_min(errfn);
    MK_CALTABLE(vcp);
    IN(char, new_name);
    IN(int, g_slot);
    cal_view_t pre, post;
    vnacal_calibration_t *calp;
    char name[2];
    int rc, expect = -1, found = -1, first_free = -1;

    ASSUME(new_name >= 'a' && new_name <= 'p');
    name[0] = new_name; name[1] = 0;
    CHECK(wf_caltable(vcp), "mk_caltable builds only wf tables");
    calp = mk_calibration(vcp, 0, VNACAL_T8, 2, 2, 2.0e9);
    cal_view_of(vcp, &pre);
    for (int i = VC_CAL_MAX - 1; i >= 0; --i) {
	if (i < pre.allocation) {
	    if (pre.slot[i] != NULL && pre.name[i] == new_name)
		found = i;
	    if (pre.slot[i] == NULL)
		first_free = i;
	}
    }
    ghost_err_reset();

    /*
     * The name may be the replaced calibration's OWN name string
     * (vnacal_add_calibration(vcp, vnacal_get_name(vcp, ci), vnp) is a natural
     * way to re-calibrate under the same name): it must be copied before the
     * old calibration - and that string with it - is freed.
     */
    {
	IN(bool, own_name);
	const char *nm = name;

	if (own_name && found >= 0) {
	    nm = vnacal_get_name(vcp, found);
	    CHECK(nm != NULL && nm[0] == new_name, "get_name returns the stored name");
	    REACH("add called with the replaced calibration's own name string");
	}
	rc = _vnacal_add_calibration_common("h", vcp, calp, nm);
    }

    cal_view_of(vcp, &post);
    REACH("add_calibration returned");
    CHECK(wf_caltable(vcp), "add: calibration table stays well formed");
    CHECK(ghost_err_calls == 0, "add: success is silent");
    if (found >= 0) {
	REACH("add replaces by name");
	expect = found;
	CHECK(post.allocation == pre.allocation, "replace: no growth");
    } else if (first_free >= 0) {
	REACH("add uses a free slot");
	expect = first_free;
	CHECK(post.allocation == pre.allocation, "free slot: no growth");
    } else {
	REACH("add grows the table");
	expect = pre.allocation;
	CHECK(post.allocation > pre.allocation, "full table grows");
    }
    CHECK(rc == expect,
	    "add returns the index of the slot that now holds the calibration "
	    "(same name: that slot; else lowest free slot; else first new slot)");
    if (expect >= 0 && expect < VC_CAL_MAX) {
	CHECK(post.slot[expect] == calp && post.name[expect] == new_name,
		"the returned slot holds the added calibration under its name");
	CHECK(vnacal_find_calibration(vcp, name) == expect,
		"find(name) returns the index add returned");
	CHECK(vnacal_get_name(vcp, expect) != NULL &&
		vnacal_get_name(vcp, expect)[0] == new_name &&
		vnacal_get_rows(vcp, expect) == 2 &&
		vnacal_get_columns(vcp, expect) == 2 &&
		vnacal_get_type(vcp, expect) == VNACAL_T8,
		"get_name/type/rows/columns at that index see the calibration");
    }
    if (g_slot >= 0 && g_slot < VC_CAL_MAX && g_slot != expect) {
	if (g_slot < pre.allocation)
	    CHECK(post.slot[g_slot] == pre.slot[g_slot],
		    "add touches no other slot");
	else if (g_slot < post.allocation)
	    CHECK(post.slot[g_slot] == NULL, "new slots start empty");
    }
    vcp->vc_parameter_collection.vprmc_vector = NULL;
    /* free everything: no leak of the replaced calibration or the table */
    for (int i = 0; i < VC_CAL_MAX; ++i)
	if (i < vcp->vc_calibration_allocation)
	    _vnacal_calibration_free(vcp->vc_calibration_vector[i]);
    free(vcp->vc_calibration_vector);
    free(vcp);
}

/* ------------------------------------------------------------------ delete */
void h_delete_calibration(void)
{
    IN(bool, errfn);
    vnacal_t *vcp = mk_vcp_min(errfn);
    MK_CALTABLE(vcp);
    IN(int, ci);
    IN(int, g_slot);
    cal_view_t pre, post;
    _Bool valid;
    int rc;

    cal_view_of(vcp, &pre);
    ghost_err_reset();
    errno = 0;
    rc = vnacal_delete_calibration(vcp, ci);
    cal_view_of(vcp, &post);
    REACH("delete_calibration returned");
    valid = ci >= 0 && ci < pre.allocation && pre.slot[ci] != NULL;
    CHECK(rc == (valid ? 0 : -1), "delete succeeds exactly for a live index");
    CHECK(wf_caltable(vcp), "delete: table stays well formed");
    CHECK(post.allocation == pre.allocation, "delete never renumbers");
    CHECK(ghost_err_calls == 0, "delete_calibration is a silent query");
    if (!valid) {
	REACH("delete refused");
	CHECK(errno == ENOENT, "delete of a missing calibration: ENOENT");
    } else {
	REACH("delete accepted");
	CHECK(post.slot[ci] == NULL, "delete empties the slot");
    }
    if (g_slot >= 0 && g_slot < VC_CAL_MAX && !(valid && g_slot == ci))
	CHECK(post.slot[g_slot] == pre.slot[g_slot],
		"delete empties exactly one slot");
    for (int i = 0; i < VC_CAL_MAX; ++i)
	if (i < vcp->vc_calibration_allocation)
	    _vnacal_calibration_free(vcp->vc_calibration_vector[i]);
    free(vcp->vc_calibration_vector);
    free(vcp);
}

/* ---------------------------------------------- find / get_* / end (queries) */
void h_query_calibration(void)
{
    IN(bool, errfn);
    vnacal_t *vcp = mk_vcp_min(errfn);
    MK_CALTABLE(vcp);
    IN(char, q_name);
    IN(int, ci);
    cal_view_t pre, post;
    char name[2];
    int found = -1, end = 0, rc;

    ASSUME(q_name >= 'a' && q_name <= 'p');
    name[0] = q_name; name[1] = 0;
    cal_view_of(vcp, &pre);
    for (int i = VC_CAL_MAX - 1; i >= 0; --i)
	if (i < pre.allocation && pre.slot[i] != NULL && pre.name[i] == q_name)
	    found = i;
    for (int i = 0; i < VC_CAL_MAX; ++i)
	if (i < pre.allocation && pre.slot[i] != NULL)
	    end = i + 1;
    ghost_err_reset();
    errno = 0;
    rc = vnacal_find_calibration(vcp, name);
    REACH("find returned");
    CHECK(rc == found, "find returns the index of the calibration of that name, else -1");
    if (found < 0)
	CHECK(errno == ENOENT, "find of a missing name: ENOENT");
    CHECK(vnacal_get_calibration_end(vcp) == end,
	    "get_calibration_end is one past the highest live index");
    if (ci >= 0 && ci < pre.allocation && pre.slot[ci] != NULL) {
	REACH("query of a live index");
	CHECK(vnacal_get_name(vcp, ci) == pre.slot[ci]->cal_name &&
		vnacal_get_type(vcp, ci) == pre.slot[ci]->cal_type &&
		vnacal_get_rows(vcp, ci) == pre.slot[ci]->cal_rows &&
		vnacal_get_columns(vcp, ci) == pre.slot[ci]->cal_columns &&
		vnacal_get_frequencies(vcp, ci) == 1 &&
		vnacal_get_fmin(vcp, ci) == 1.0e9 &&
		vnacal_get_fmax(vcp, ci) == 1.0e9,
		"getters at a live index return that calibration's data");
    } else {
	REACH("query of a dead index");
	CHECK(vnacal_get_name(vcp, ci) == NULL &&
		(int)vnacal_get_type(vcp, ci) == -1 &&
		vnacal_get_rows(vcp, ci) == -1 &&
		vnacal_get_columns(vcp, ci) == -1 &&
		vnacal_get_frequencies(vcp, ci) == -1 &&
		vnacal_get_fmin(vcp, ci) == HUGE_VAL &&
		vnacal_get_frequency_vector(vcp, ci) == NULL,
		"getters at an empty or out-of-range index return the failure value");
    }
    CHECK(ghost_err_calls == 0, "find/get_* are silent queries");
    cal_view_of(vcp, &post);
    for (int i = 0; i < VC_CAL_MAX; ++i)
	CHECK(post.slot[i] == pre.slot[i], "queries change nothing");
    for (int i = 0; i < VC_CAL_MAX; ++i)
	if (i < vcp->vc_calibration_allocation)
	    _vnacal_calibration_free(vcp->vc_calibration_vector[i]);
    free(vcp->vc_calibration_vector);
    free(vcp);
}

/* ------------------------------------------------------------ vnacal_free */
#ifdef H_FREE
void vnacal_new_free(vnacal_new_t *vnp)
{
    (void)vnp;
    CHECK(0, "no vnacal_new_t exists in this harness");
}

void h_free_vnacal(void)
{
    IN(bool, errfn);
    vnacal_t *vcp = mk_vcp_min(errfn);
    MK_CALTABLE(vcp);

    CHECK(wf_caltable(vcp), "mk_caltable builds only wf tables");
    vnacal_free(vcp);
    REACH("vnacal_free returned");
    /* --memory-leak-check: every calibration, the slot vector and the vnacal_t are gone */
}
#endif

/* ============================================================== parameters */
static int ext[VC_PRM_MAX];

#define SETUP_PARAMS() \
    IN(bool, errfn); \
    vnacal_t *vcp = mk_vcp_min(errfn); \
    MK_PARAMS(vcp); \
    for (int i_ = 0; i_ < VC_PRM_MAX; ++i_) \
	ext[i_] = i_ < VC_PRM_ALLOC ? prm_external[i_] : 0

/* drop the ghost external holds, then tear down: nothing may remain */
static void finish_params(vnacal_t *vcp)
{
    vnacal_parameter_collection_t *c = &vcp->vc_parameter_collection;

    for (int i = 0; i < VC_PRM_MAX; ++i) {
	if (i < c->vprmc_allocation) {
	    for (int k = 0; k < 2; ++k) {
		if (ext[i] > 0) {
		    /* an external holder (vnacal_new_free) releases its hold */
		    --ext[i];
		    _vnacal_release_parameter(c->vprmc_vector[i]);
		}
	    }
	}
    }
}

void h_alloc_parameter(void)
{
    SETUP_PARAMS();
    IN(int, g_slot);
    prm_view_t pre, post;
    vnacal_parameter_t *p;

    CHECK(wf_params(vcp, ext), "mk_params builds only wf collections");
    prm_view_of(vcp, &pre);
    ghost_err_reset();
    p = _vnacal_alloc_parameter("h", vcp);
    REACH("alloc_parameter returned");
    CHECK(p != NULL, "alloc succeeds when memory is available");
    CHECK(ghost_err_calls == 0, "alloc: success is silent");
    prm_view_of(vcp, &post);
    CHECK(p->vpmr_index >= 0 && p->vpmr_index < post.allocation &&
	    post.slot[p->vpmr_index] == p,
	    "the new handle indexes the new parameter");
    CHECK(p->vpmr_index >= pre.allocation || pre.slot[p->vpmr_index] == NULL,
	    "a new handle never equals a live handle (unique while live)");
    CHECK(p->vpmr_index >= VNACAL_PREDEFINED_PARAMETERS,
	    "predefined handles are never handed out again");
    CHECK(p->vpmr_hold_count == 1 && !p->vpmr_deleted &&
	    p->vpmr_type == VNACAL_NEW && p->vpmr_vcp == vcp,
	    "new parameter: one hold, live, owned by this vnacal_t");
    CHECK(post.count == pre.count + 1, "count grows by one");
    if (g_slot >= 0 && g_slot < VC_PRM_MAX && g_slot != p->vpmr_index) {
	if (g_slot < pre.allocation)
	    CHECK(post.slot[g_slot] == pre.slot[g_slot] &&
		    post.hold[g_slot] == pre.hold[g_slot] &&
		    post.deleted[g_slot] == pre.deleted[g_slot],
		    "alloc touches no other handle");
	else if (g_slot < post.allocation)
	    CHECK(post.slot[g_slot] == NULL, "new slots start empty");
    }
    p->vpmr_type = VNACAL_SCALAR;	/* what every make_* does next */
    CHECK(wf_params(vcp, ext), "alloc: collection stays well formed");
    finish_params(vcp);
    _vnacal_teardown_parameter_collection(vcp);
    free(vcp);
}

void h_delete_parameter(void)
{
    SETUP_PARAMS();
    IN(int, handle);
    IN(int, g_slot);
    prm_view_t pre, post;
    _Bool live;
    int rc;

    prm_view_of(vcp, &pre);
    ghost_err_reset();
    rc = vnacal_delete_parameter(vcp, handle);
    REACH("delete_parameter returned");
    prm_view_of(vcp, &post);
    live = handle >= 0 && handle < pre.allocation && pre.slot[handle] != NULL &&
	!pre.deleted[handle];
    if (handle >= 0 && handle < VNACAL_PREDEFINED_PARAMETERS) {	/* a negative handle is not a handle: refused below */
	REACH("delete of a predefined handle");
	CHECK(rc == 0 && ghost_err_calls == 0,
		"deleting a predefined handle is a silent no-op");
	for (int i = 0; i < VC_PRM_MAX; ++i)
	    CHECK(post.slot[i] == pre.slot[i] && post.hold[i] == pre.hold[i] &&
		    post.deleted[i] == pre.deleted[i],
		    "predefined handles are permanent");
    } else if (!live) {
	REACH("delete of a dead handle");
	CHECK(rc == -1 && ghost_err_calls == 1 &&
		ghost_err_category == VNAERR_USAGE && errno == EINVAL,
		"deleting a dead handle fails once with EINVAL");
	for (int i = 0; i < VC_PRM_MAX; ++i)
	    CHECK(post.slot[i] == pre.slot[i] && post.hold[i] == pre.hold[i] &&
		    post.deleted[i] == pre.deleted[i],
		    "refused delete changes nothing");
    } else {
	REACH("delete of a live handle");
	CHECK(rc == 0 && ghost_err_calls == 0, "deleting a live handle succeeds");
	if (pre.hold[handle] > 1) {
	    REACH("deleted while still held");
	    CHECK(post.slot[handle] == pre.slot[handle] &&
		    post.deleted[handle] && post.hold[handle] == pre.hold[handle] - 1,
		    "a handle deleted while something uses it keeps existing there");
	} else {
	    CHECK(post.slot[handle] == NULL, "an unused deleted handle is freed");
	}
	CHECK(_vnacal_get_parameter(vcp, handle) == NULL,
		"a deleted handle is no longer valid for the user");
    }
    (void)g_slot;
    CHECK(wf_params(vcp, ext), "delete: collection stays well formed");
    finish_params(vcp);
    _vnacal_teardown_parameter_collection(vcp);
    free(vcp);
}

/* teardown from ANY well-formed state without external holders */
void h_teardown(void)
{
    SETUP_PARAMS();

    for (int i = 0; i < VC_PRM_MAX; ++i)
	ASSUME(ext[i] == 0);
    CHECK(wf_params(vcp, ext), "mk_params builds only wf collections");
    _vnacal_teardown_parameter_collection(vcp);
    REACH("teardown returned");
    CHECK(vcp->vc_parameter_collection.vprmc_vector == NULL &&
	    vcp->vc_parameter_collection.vprmc_count == 0,
	    "teardown leaves an empty collection");
    free(vcp);
    /* --memory-leak-check: every parameter was freed */
}

/* make_scalar / make_unknown + get_parameter_value */
void h_make_parameter(void)
{
    SETUP_PARAMS();
    IN(double, gamma);
    IN(int, guess);
    IN(bool, unknown);
    prm_view_t pre, post;
    int h;

    prm_view_of(vcp, &pre);
    ghost_err_reset();
    if (!unknown) {
	double complex g = gamma;

	h = vnacal_make_scalar_parameter(vcp, g);
	REACH("make_scalar returned");
	CHECK(h >= 0, "make_scalar succeeds");
	CHECK(ghost_err_calls == 0, "make_scalar is silent");
	if (gamma == 0.0)
	    CHECK(h == VNACAL_MATCH, "0 is the predefined match");
	else if (gamma == 1.0)
	    CHECK(h == VNACAL_OPEN, "1 is the predefined open");
	else if (gamma == -1.0)
	    CHECK(h == VNACAL_SHORT, "-1 is the predefined short");
	else
	    CHECK(h >= pre.allocation || pre.slot[h] == NULL,
		    "a fresh handle, distinct from every live handle");
	if (gamma == gamma) {
	    double complex v = vnacal_get_parameter_value(vcp, h, 1.0e9);

	    CHECK(creal(v) == gamma,
		    "get_parameter_value returns the supplied scalar");
	}
    } else {
	_Bool ok = guess >= 0 && guess < pre.allocation &&
	    pre.slot[guess] != NULL && !pre.deleted[guess];

	h = vnacal_make_unknown_parameter(vcp, guess);
	REACH("make_unknown returned");
	CHECK((h >= 0) == ok, "make_unknown succeeds exactly for a live guess handle");
	if (ok) {
	    prm_view_of(vcp, &post);
	    CHECK(h >= pre.allocation || pre.slot[h] == NULL,
		    "a fresh handle, distinct from every live handle");
	    CHECK(post.other[h] == pre.slot[guess] &&
		    post.hold[guess] == pre.hold[guess] + 1,
		    "the unknown holds its initial guess");
	} else {
	    CHECK(h == -1 && ghost_err_calls == 1 &&
		    ghost_err_category == VNAERR_USAGE && errno == EINVAL,
		    "invalid guess handle refused once with EINVAL");
	}
    }
    CHECK(wf_params(vcp, ext), "make_*: collection stays well formed");
    finish_params(vcp);
    _vnacal_teardown_parameter_collection(vcp);
    free(vcp);
}

#ifdef VERIF_NATIVE
int main(void)
{
    HARNESS();
    return 0;
}
#endif

/*
 * C17 / C01 harness: build_connectivity_matrix (static; the translation unit
 * is included) against its specification: ports i and j are connected iff
 * they are in the same block of the S matrix, i.e. iff (i, j) is in the
 * reflexive-symmetric-transitive closure of "S_ij or S_ji is not known to be
 * zero".  Any zero pattern (including non-reciprocal ones), any numbering.
 */
#include "/repo/src/vnacal_new_add_common.c"
#define VERIF_SKIP_ARCHDEP
#include "mk_min.h"

#ifndef NPORTS
#define NPORTS 3
#endif

void h_connectivity(void)
{
    IN_ARR(bool, nz, NPORTS * NPORTS);
    double cfv[1] = { 1.0e9 };
    vnacal_t *vcp = mk_vcp_min(1);
    vnacal_new_t *vnp = mk_vnp_min(vcp, VNACAL_TE10, NPORTS, NPORTS, 1, cfv);
    vnacal_new_parameter_t zero_node, other_node;
    vnacal_new_parameter_t *smat[NPORTS * NPORTS];
    vnacal_new_measurement_t m;
    _Bool conn[NPORTS][NPORTS];
    int rc;

    (void)memset((void *)&m, 0, sizeof(m));
    vnp->vn_zero = &zero_node;
    for (int k = 0; k < NPORTS * NPORTS; ++k)
	smat[k] = nz[k] ? &other_node : &zero_node;
    m.vnm_vnp = vnp;
    m.vnm_s_matrix = smat;
    /* specification: closure of the undirected "not known zero" relation */
    for (int i = 0; i < NPORTS; ++i)
	for (int j = 0; j < NPORTS; ++j)
	    conn[i][j] = i == j || (nz[i * NPORTS + j] || nz[j * NPORTS + i]);
    for (int k = 0; k < NPORTS; ++k)
	for (int i = 0; i < NPORTS; ++i)
	    for (int j = 0; j < NPORTS; ++j)
		if (conn[i][k] && conn[k][j])
		    conn[i][j] = 1;
    rc = build_connectivity_matrix(&m);
    REACH("connectivity built");
    CHECK(rc == 0 && m.vnm_connectivity_matrix != NULL, "connectivity matrix is built");
    for (int i = 0; i < NPORTS; ++i)
	for (int j = 0; j < NPORTS; ++j)
	    CHECK(m.vnm_connectivity_matrix[i * NPORTS + j] == conn[i][j],
		    "ports are connected exactly when they are in the same block of S "
		    "(closure of 'S_ij or S_ji not known zero'), whatever the port numbering");
    free(m.vnm_connectivity_matrix);
    free(vnp); free(vcp);
}

/*
 * C19, call-site clause for VNACAL_E12: the error terms are solved as UE14 and
 * converted with Er = n / Um, Em = Ux / Um, El = -Ui / Um, one column system
 * at a time.  The conversion divides by EVERY entry of the column's Um vector:
 * an exactly zero one (a regular elimination can return it when no standard
 * determines that transmission tracking term) is a singular system and must be
 * reported (-1, EDOM) instead of being divided by.
 *
 * The real convert_ue14_to_e12 (static: the translation unit is included) on
 * a fully symbolic term vector; dimensions per job.
 */
#include "/repo/src/vnacal_new_solve.c"
#define VERIF_SKIP_ARCHDEP
#include "mk_min.h"

#ifndef CAL_ROWS
#define CAL_ROWS 2
#endif
#ifndef CAL_COLS
#define CAL_COLS 2
#endif

void h_e12_convert(void)
{
    vnacal_layout_t vl_in, vl_out;
    IN_ARR(double, ev, 40);
    double complex e[40];
    _Bool zero_um = 0;
    int rc, terms_in, terms_out;

    _vnacal_layout(&vl_in, _VNACAL_E12_UE14, CAL_ROWS, CAL_COLS);
    _vnacal_layout(&vl_out, VNACAL_E12, CAL_ROWS, CAL_COLS);
    terms_in = VL_ERROR_TERMS(&vl_in);
    terms_out = VL_ERROR_TERMS(&vl_out);
    ASSUME(terms_in <= 40 && terms_out <= 40);
    for (int i = 0; i < 40; ++i) {
	ASSUME(ev[i] == ev[i]);
	e[i] = ev[i];
    }
    for (int c = 0; c < CAL_COLS; ++c)
	for (int r = 0; r < CAL_ROWS; ++r)
	    if (creal(e[VL_UM14_OFFSET(&vl_in, c) + r]) == 0.0)
		zero_um = 1;
    errno = 0;
    rc = convert_ue14_to_e12(e, &vl_in, &vl_out);
    REACH("conversion returned");
    CHECK(rc == 0 || rc == -1, "returns 0 or -1");
    if (zero_um) {
	REACH("a transmission tracking term is exactly zero");
	CHECK(rc == -1 && errno == EDOM, "a zero divisor is reported as a singular system (EDOM), not divided by");
    } else {
	REACH("all divisors nonzero");
	CHECK(rc == 0, "a regular set of terms is converted");
    }
}

#ifdef VERIF_NATIVE
int main(void) { HARNESS(); return 0; }
#endif

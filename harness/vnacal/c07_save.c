/*
 * C07, frame of vnacal_save: WHAT goes into the calibration file and with
 * WHICH precision, decided on the real vnacal_save / add_* / add_vector /
 * add_error_parameters code with libyaml replaced by a RECORDING document
 * model (assumed contract: the document is the tree of the add/append calls;
 * the emitter writes it) and sprintf by a contract that writes a marker
 * ("f<p>" for a real number formatted with p significant digits, "c<p>" for a
 * complex one, the decimal text for an integer).
 *
 * Postconditions (from the property statement: names, order, types,
 * dimensions, frequency vector, z0 and error terms "equal to the saved
 * precision"): one entry per calibration IN TABLE ORDER, also past an empty
 * slot; name / rows / columns / frequencies as stored; z0 and every error term
 * written with the DATA precision, every frequency with the FREQUENCY
 * precision; one data entry per frequency; the call succeeds and the file is
 * closed once.
 */
#include <stdarg.h>
#include <stdio.h>
#include "/repo/src/vnacal_save.c"
#include "verif.h"

double creal(double complex z) { return __real__ z; }
double cimag(double complex z) { return __imag__ z; }

/* ---- recording document model ------------------------------------------ */
#define MAXN 110
#define MAXCH 16
#define TXT 16
static struct {
    int kind;			/* 1 scalar, 2 sequence, 3 mapping */
    char text[TXT];
    int nchild;
    int child[MAXCH];
} node[MAXN + 1];
static int nnodes;
static int ghost_fopen, ghost_fclose, ghost_dumped;

static int new_node(int kind)
{
    CHECK(nnodes < MAXN, "infra: document model too small");
    if (nnodes >= MAXN)
	return 0;
    ++nnodes;
    node[nnodes].kind = kind;
    node[nnodes].nchild = 0;
    node[nnodes].text[0] = 0;
    return nnodes;
}

int yaml_document_initialize(yaml_document_t *document, yaml_version_directive_t *version_directive,
	yaml_tag_directive_t *tag_directives_start, yaml_tag_directive_t *tag_directives_end,
	int start_implicit, int end_implicit)
{
    (void)document; (void)version_directive; (void)tag_directives_start; (void)tag_directives_end;
    (void)start_implicit; (void)end_implicit;
    nnodes = 0;
    return 1;
}

void yaml_document_delete(yaml_document_t *document) { (void)document; }

int yaml_document_add_scalar(yaml_document_t *document, const yaml_char_t *tag,
	const yaml_char_t *value, int length, yaml_scalar_style_t style)
{
    int id = new_node(1);

    (void)document; (void)tag; (void)style;
    if (id != 0) {
	for (int i = 0; i < TXT - 1; ++i) {
	    if (i >= length)
		break;
	    node[id].text[i] = (char)value[i];
	    node[id].text[i + 1] = 0;
	}
    }
    return id;
}

int yaml_document_add_sequence(yaml_document_t *document, const yaml_char_t *tag, yaml_sequence_style_t style)
{
    (void)document; (void)tag; (void)style;
    return new_node(2);
}

int yaml_document_add_mapping(yaml_document_t *document, const yaml_char_t *tag, yaml_mapping_style_t style)
{
    (void)document; (void)tag; (void)style;
    return new_node(3);
}

int yaml_document_append_sequence_item(yaml_document_t *document, int sequence, int item)
{
    (void)document;
    CHECK(sequence >= 1 && sequence <= nnodes && node[sequence].kind == 2 && item >= 1 && item <= nnodes,
	    "append_sequence_item: sequence and item are nodes of this document");
    CHECK(node[sequence].nchild < MAXCH, "infra: document model too small (children)");
    if (node[sequence].nchild < MAXCH)
	node[sequence].child[node[sequence].nchild++] = item;
    return 1;
}

int yaml_document_append_mapping_pair(yaml_document_t *document, int mapping, int key, int value)
{
    (void)document;
    CHECK(mapping >= 1 && mapping <= nnodes && node[mapping].kind == 3 && key >= 1 && key <= nnodes &&
	    value >= 1 && value <= nnodes, "append_mapping_pair: mapping, key and value are nodes of this document");
    CHECK(node[mapping].nchild + 1 < MAXCH, "infra: document model too small (children)");
    if (node[mapping].nchild + 1 < MAXCH) {
	node[mapping].child[node[mapping].nchild++] = key;
	node[mapping].child[node[mapping].nchild++] = value;
    }
    return 1;
}

int yaml_emitter_initialize(yaml_emitter_t *emitter) { (void)emitter; return 1; }
void yaml_emitter_delete(yaml_emitter_t *emitter) { (void)emitter; }
void yaml_emitter_set_output_file(yaml_emitter_t *emitter, FILE *file) { (void)emitter; (void)file; }
void yaml_emitter_set_encoding(yaml_emitter_t *emitter, yaml_encoding_t encoding) { (void)emitter; (void)encoding; }
void yaml_emitter_set_canonical(yaml_emitter_t *emitter, int canonical) { (void)emitter; (void)canonical; }
void yaml_emitter_set_indent(yaml_emitter_t *emitter, int indent) { (void)emitter; (void)indent; }
void yaml_emitter_set_width(yaml_emitter_t *emitter, int width) { (void)emitter; (void)width; }
void yaml_emitter_set_unicode(yaml_emitter_t *emitter, int unicode) { (void)emitter; (void)unicode; }
void yaml_emitter_set_break(yaml_emitter_t *emitter, yaml_break_t line_break) { (void)emitter; (void)line_break; }
int yaml_emitter_open(yaml_emitter_t *emitter) { (void)emitter; return 1; }
int yaml_emitter_close(yaml_emitter_t *emitter) { (void)emitter; return 1; }
int yaml_emitter_dump(yaml_emitter_t *emitter, yaml_document_t *document)
{
    (void)emitter; (void)document;
    ++ghost_dumped;
    return 1;
}

/* property trees: none in this harness (C13 / C14 territory) */
int _vnaproperty_yaml_export(vnaproperty_yaml_t *vymlp, const vnaproperty_t *root)
{
    (void)vymlp; (void)root;
    return 0;
}

/* ---- stdio: ASSUMED CONTRACT (the file opens, writes succeed) ------------ */
static FILE ghost_file;
FILE *fopen(const char *pathname, const char *mode) { (void)pathname; (void)mode; ++ghost_fopen; return &ghost_file; }
int fclose(FILE *fp) { CHECK(fp == &ghost_file, "fclose: the file opened by this call"); ++ghost_fclose; return 0; }
int fflush(FILE *fp) { (void)fp; return 0; }
int ferror(FILE *fp) { (void)fp; return 0; }
int fprintf(FILE *fp, const char *format, ...) { (void)fp; (void)format; return 1; }

/* ---- sprintf: marker contract ------------------------------------------- */
static int fmt_is(const char *f, const char *lit)
{
    for (int i = 0; i < 16; ++i) {
	if (f[i] != lit[i])
	    return 0;
	if (lit[i] == 0)
	    return 1;
    }
    return 0;
}

static int put_small(char *s, int at, int v)
{
    if (v >= 10)
	s[at++] = (char)('0' + (v / 10) % 10);
    s[at++] = (char)('0' + v % 10);
    s[at] = 0;
    return at;
}

int sprintf(char *str, const char *format, ...)
{
    va_list ap;
    int n = 0;

    va_start(ap, format);
    if (fmt_is(format, "%d")) {
	int v = va_arg(ap, int);

	CHECK(v >= 0 && v <= 99, "infra: save harness writes small non-negative integers");
	n = put_small(str, 0, v);
    } else if (fmt_is(format, "%.*e")) {
	int p = va_arg(ap, int);

	str[0] = 'f';
	n = put_small(str, 1, p + 1);
    } else if (fmt_is(format, "%+.*e %+.*ej")) {
	int p = va_arg(ap, int);

	str[0] = 'c';
	n = put_small(str, 1, p + 1);
    } else if (fmt_is(format, "%+a %+aj")) {
	str[0] = 'c'; str[1] = 'H'; str[2] = 0;
	n = 2;
    } else {
	CHECK(0, "infra: sprintf called with a format the save harness does not know");
    }
    va_end(ap);
    return n;
}

const char *vnacal_type_to_name(vnacal_type_t type) { (void)type; return "T8"; }
const char *vnacal_get_filename(const vnacal_t *vcp) { return vcp->vc_filename; }
void _vnacal_layout(vnacal_layout_t *vlp, vnacal_type_t type, int m_rows, int m_columns);

/* ---- the harness --------------------------------------------------------- */
static _Bool text_is(int id, const char *lit)
{
    if (id < 1 || id > nnodes || node[id].kind != 1)
	return 0;
    for (int i = 0; i < TXT; ++i) {
	if (node[id].text[i] != lit[i])
	    return 0;
	if (lit[i] == 0)
	    return 1;
    }
    return 0;
}

/* value node of key `key' in mapping `map', 0 if absent */
static int map_get(int map, const char *key)
{
    if (map < 1 || map > nnodes || node[map].kind != 3)
	return 0;
    for (int i = 0; i + 1 < MAXCH; i += 2)
	if (i + 1 < node[map].nchild && text_is(node[map].child[i], key))
	    return node[map].child[i + 1];
    return 0;
}

#ifndef FPREC
#define FPREC 3
#endif
#ifndef DPREC
#define DPREC 5
#endif
#define NFREQ 2

static vnacal_calibration_t *mk_cal(vnacal_t *vcp, char name, int terms)
{
    vnacal_calibration_t *calp = malloc(sizeof(*calp));
    static double complex ev[2][8][NFREQ];
    static int used;
    int me = used++;

    __CPROVER_assume(calp != NULL && me < 2);
    (void)memset((void *)calp, 0, sizeof(*calp));
    calp->cal_vcp = vcp;
    calp->cal_type = VNACAL_T8;
    calp->cal_rows = 1;
    calp->cal_columns = 1;
    calp->cal_frequencies = NFREQ;
    calp->cal_frequency_vector = malloc(NFREQ * sizeof(double));
    __CPROVER_assume(calp->cal_frequency_vector != NULL);
    calp->cal_frequency_vector[0] = 1.0e9;
    calp->cal_frequency_vector[1] = 2.0e9;
    calp->cal_z0 = 50.0;
    calp->cal_error_terms = terms;
    calp->cal_error_term_vector = malloc(terms * sizeof(double complex *));
    __CPROVER_assume(calp->cal_error_term_vector != NULL);
    for (int t = 0; t < 8; ++t)
	if (t < terms)
	    calp->cal_error_term_vector[t] = ev[me][t];
    calp->cal_name = malloc(2);
    __CPROVER_assume(calp->cal_name != NULL);
    calp->cal_name[0] = name;
    calp->cal_name[1] = 0;
    return calp;
}

void h_save_frame(void)
{
    vnacal_t *vcp = malloc(sizeof(*vcp));
    vnacal_layout_t vl;
    int rc, root, cals, terms;
    char fpm[4], dpm[4];

    __CPROVER_assume(vcp != NULL);
    (void)memset((void *)vcp, 0, sizeof(*vcp));
    vcp->vc_magic = VC_MAGIC;
    vcp->vc_fprecision = FPREC;
    vcp->vc_dprecision = DPREC;
    _vnacal_layout(&vl, VNACAL_T8, 1, 1);
    terms = VL_ERROR_TERMS(&vl);
    __CPROVER_assume(terms >= 1 && terms <= 8);
    /* table: calibration "a", an EMPTY slot, calibration "b" */
    vcp->vc_calibration_allocation = 3;
    vcp->vc_calibration_vector = malloc(3 * sizeof(vnacal_calibration_t *));
    __CPROVER_assume(vcp->vc_calibration_vector != NULL);
    vcp->vc_calibration_vector[0] = mk_cal(vcp, 'a', terms);
    vcp->vc_calibration_vector[1] = NULL;
    vcp->vc_calibration_vector[2] = mk_cal(vcp, 'b', terms);
    fpm[0] = 'f'; (void)put_small(fpm, 1, FPREC);
    dpm[0] = 'c'; (void)put_small(dpm, 1, DPREC);

#ifdef SAVE_OWN_NAME
    /* "save back to where it came from": the path argument is the vnacal_t's own file name */
    vcp->vc_filename = malloc(5);
    __CPROVER_assume(vcp->vc_filename != NULL);
    vcp->vc_filename[0] = 'f'; vcp->vc_filename[1] = 'i'; vcp->vc_filename[2] = 'l'; vcp->vc_filename[3] = 'e';
    vcp->vc_filename[4] = 0;
    rc = vnacal_save(vcp, vnacal_get_filename(vcp));
    REACH("save to its own file name returned");
    CHECK(rc == 0, "saving under the current file name succeeds");
    CHECK(vcp->vc_filename != NULL && vcp->vc_filename[0] == 'f' && vcp->vc_filename[4] == 0,
	    "and the file name is still that name");
#else
    rc = vnacal_save(vcp, "file");
#endif
    REACH("save returned");
    CHECK(rc == 0, "save succeeds");
    CHECK(ghost_fopen == 1 && ghost_fclose == 1 && ghost_dumped == 1, "the file is opened, written and closed once");
    root = 1;
    CHECK(nnodes >= 1 && node[root].kind == 3, "the document is a mapping");
    cals = map_get(root, "calibrations");
    CHECK(cals != 0 && node[cals].kind == 2, "it has a sequence of calibrations");
    CHECK(cals != 0 && node[cals].nchild == 2,
	    "one entry per calibration in the table, also past an empty slot");
    for (int k = 0; k < 2; ++k) {
	int c = (cals != 0 && k < node[cals].nchild) ? node[cals].child[k] : 0;
	int data = map_get(c, "data");

	CHECK(text_is(map_get(c, "name"), k == 0 ? "a" : "b"), "calibrations are written in table order under their names");
	CHECK(text_is(map_get(c, "rows"), "1") && text_is(map_get(c, "columns"), "1") &&
		text_is(map_get(c, "frequencies"), "2"), "dimensions and frequency count as stored");
	CHECK(text_is(map_get(c, "z0"), dpm), "the reference impedance is written with the data precision");
	CHECK(data != 0 && node[data].kind == 2 && node[data].nchild == NFREQ, "one data entry per frequency");
	for (int fi = 0; fi < NFREQ; ++fi) {
	    int e = (data != 0 && fi < node[data].nchild) ? node[data].child[fi] : 0;
	    int ts = map_get(e, "ts");

	    CHECK(text_is(map_get(e, "f"), fpm), "every frequency is written with the frequency precision");
	    CHECK(ts != 0 && node[ts].kind == 2 && node[ts].nchild == 1 && text_is(node[ts].child[0], dpm),
		    "error terms are written with the data precision");
	}
    }
    free(vcp->vc_filename);
    for (int i = 0; i < 3; ++i)
	if (vcp->vc_calibration_vector[i] != NULL) {
	    free(vcp->vc_calibration_vector[i]->cal_name);
	    free(vcp->vc_calibration_vector[i]->cal_frequency_vector);
	    free(vcp->vc_calibration_vector[i]->cal_error_term_vector);
	    free(vcp->vc_calibration_vector[i]);
	}
    free(vcp->vc_calibration_vector);
    free(vcp);
}

#ifdef VERIF_NATIVE
int main(void) { HARNESS(); return 0; }
#endif

/*
 * mk_min.h -- minimal well-formed vnacal_t / vnacal_new_t / parameter objects
 * for harnesses that exercise one function which only looks at a few fields.
 * (The full representation invariants are in wf_vnacal.h.)
 */
#ifndef MK_MIN_H
#define MK_MIN_H
#ifndef VERIF_SKIP_ARCHDEP
#include "archdep.h"
#endif
#include <errno.h>
#include <math.h>
#include <complex.h>
#include <stdlib.h>
#include <string.h>
#include "verif.h"
#include "verif_err.h"
#include <vnacal_internal.h>
#include <vnacal_new_internal.h>

static inline _Bool verif_finite(double x)
{
    return x == x && x < HUGE_VAL && x > -HUGE_VAL;
}

static vnacal_t *mk_vcp_min(_Bool with_error_fn)
{
    vnacal_t *vcp = malloc(sizeof(*vcp));

    ASSUME(vcp != NULL);
    (void)memset((void *)vcp, 0, sizeof(*vcp));
    vcp->vc_magic = VC_MAGIC;
    vcp->vc_error_fn = with_error_fn ? verif_error_fn : NULL;
    vcp->vc_fprecision = 7;
    vcp->vc_dprecision = 6;
    vcp->vc_new_head.l_forw = &vcp->vc_new_head;
    vcp->vc_new_head.l_back = &vcp->vc_new_head;
    return vcp;
}

/* a VECTOR parameter over the given knots (not registered in a collection) */
static vnacal_parameter_t *mk_vector_param(vnacal_t *vcp, int index, int n,
	double *fv, double complex *gv)
{
    vnacal_parameter_t *p = malloc(sizeof(*p));

    ASSUME(p != NULL);
    (void)memset((void *)p, 0, sizeof(*p));
    p->vpmr_type = VNACAL_VECTOR;
    p->vpmr_deleted = 0;
    p->vpmr_hold_count = 1;
    p->vpmr_index = index;
    p->vpmr_segment = 0;
    p->vpmr_vcp = vcp;
    p->vpmr_frequencies = n;
    p->vpmr_frequency_vector = fv;
    p->vpmr_gamma_vector = gv;
    return p;
}

/* a vnacal_new_t with a valid two-point frequency vector and nothing added */
static vnacal_new_t *mk_vnp_min(vnacal_t *vcp, int type, int rows, int columns,
	int nf, double *fv)
{
    vnacal_new_t *vnp = malloc(sizeof(*vnp));

    ASSUME(vnp != NULL);
    (void)memset((void *)vnp, 0, sizeof(*vnp));
    vnp->vn_magic = VN_MAGIC;
    vnp->vn_vcp = vcp;
    _vnacal_layout(&vnp->vn_layout, (vnacal_type_t)type, rows, columns);
    vnp->vn_frequencies = nf;
    vnp->vn_frequency_vector = fv;
    vnp->vn_frequencies_valid = 1;
    vnp->vn_z0 = 50.0;
    vnp->vn_measurement_anchor = &vnp->vn_measurement_list;
    vnp->vn_unknown_parameter_anchor = &vnp->vn_unknown_parameter_list;
    return vnp;
}

static inline void ghost_err_reset(void)
{
    ghost_err_calls = 0;
    ghost_err_fn_calls = 0;
    ghost_err_category = -1;
}

#endif

/*
 * C03 harness: _vnacal_new_get_parameter with ANY handle value (negative,
 * out of range, deleted, valid), as vnacal_new_add_* passes user-supplied S
 * parameter handles straight to it: only owned memory is touched; invalid
 * handles are answered with NULL and one usage error; a valid handle is
 * found again on the second call (same node) and holds the parameter.
 */
#include "wf_vnacal.h"

static int ext[VC_PRM_MAX];

void h_get_parameter(void)
{
    IN(bool, errfn);
    vnacal_t *vcp = mk_vcp_min(errfn);
    IN(int, handle);
    double cfv[2] = { 1.0e9, 2.0e9 };
    vnacal_new_t *vnp = mk_vnp_min(vcp, VNACAL_T8, 2, 2, 2, cfv);
    vnacal_new_parameter_t *n1, *n2;
    _Bool live;
    int hold_before = 0;

    /* the parameter table as vnacal_create leaves it: the three predefined scalars */
    ASSUME(_vnacal_setup_parameter_collection("h", vcp) == 0);
    vnp->vn_frequencies_valid = 0;		/* the range test is C10's */
    ASSUME(_vnacal_new_init_parameter_hash("h", &vnp->vn_parameter_hash) == 0);
    live = handle >= 0 && handle < VNACAL_PREDEFINED_PARAMETERS;
    if (live)
	hold_before = vcp->vc_parameter_collection.vprmc_vector[handle]->vpmr_hold_count;
    ghost_err_reset();
    n1 = _vnacal_new_get_parameter("h", vnp, handle);
    REACH("get_parameter returned");
    if (!live) {
	REACH("invalid handle");
	CHECK(n1 == NULL, "an invalid or deleted handle is refused");
	CHECK(ghost_err_calls == 1 && ghost_err_category == VNAERR_USAGE &&
		errno == EINVAL, "refusal reported once as usage error");
    } else {
	REACH("valid handle");
	CHECK(n1 != NULL && n1->vnpr_parameter ==
		vcp->vc_parameter_collection.vprmc_vector[handle],
		"a live handle yields a node for that parameter");
	CHECK(ghost_err_calls == 0, "success is silent");
	CHECK(n1->vnpr_parameter->vpmr_hold_count >= hold_before + 1,
		"the vnacal_new_t holds the parameter");
	n2 = _vnacal_new_get_parameter("h", vnp, handle);
	CHECK(n2 == n1, "the same handle is found again (one node per parameter)");
    }
    (void)ext;
    _vnacal_new_free_parameter_hash(&vnp->vn_parameter_hash);
    free(vnp);
    _vnacal_teardown_parameter_collection(vcp);
    free(vcp);
}

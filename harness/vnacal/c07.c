/*
 * C07 harness (precision clause only): "for every precision value the
 * setters accept", the number formatting of vnacal_save writes inside its
 * buffers.  add_integer / add_double / add_complex are static: the harness
 * includes the translation unit.  libyaml is replaced by a recording stub;
 * sprintf by an ASSUMED CONTRACT that models, for the four formats the file
 * uses, the exact worst-case output length and requires the destination to
 * be that large.
 */
#include <stdarg.h>
#include "/repo/src/vnacal_save.c"
#include "verif.h"

/* creal/cimag: CBMC has no body for them (they return double, so no complex-return crash) */
double creal(double complex z) { return __real__ z; }
double cimag(double complex z) { return __imag__ z; }

/* ---- assumed contract for sprintf (worst-case length per format) */
static int fmt_is(const char *f, const char *lit)
{
    for (int i = 0; i < 16; ++i) {
	if (f[i] != lit[i])
	    return 0;
	if (lit[i] == 0)
	    return 1;
    }
    return 0;
}

static long fmt_len(const char *format, va_list ap)
{
    long len = -1;

    if (fmt_is(format, "%d")) {
	len = 11;				/* -2147483648 */
    } else if (fmt_is(format, "%.*e")) {
	int p = va_arg(ap, int);		/* digits after the point */
	len = 1 + 1 + (p > 0 ? 1 + (long)p : 0) + 5;	/* -d.ddde-308 */
    } else if (fmt_is(format, "%+a %+aj")) {
	len = 2 * 24 + 2;			/* +0x1.fffffffffffffp+1023 twice */
    } else if (fmt_is(format, "%+.*e %+.*ej")) {
	int p = va_arg(ap, int);
	len = 2 * (1 + 1 + (p > 0 ? 1 + (long)p : 0) + 5) + 2;
    } else if (fmt_is(format, "%a")) {
	len = 24;
    }
    return len;
}

int sprintf(char *str, const char *format, ...)
{
    va_list ap;
    long len;

    va_start(ap, format);
    len = fmt_len(format, ap);
    va_end(ap);
    CHECK(len >= 0, "infra: sprintf called with a format the model does not know");
    CHECK(VERIF_RW_OK(str, (size_t)len + 1),
	    "sprintf: destination buffer holds the longest output for this precision");
    str[0] = 0;
    if (len >= 1 && VERIF_RW_OK(str, (size_t)len + 1)) {
	str[0] = '1';
	str[1] = 0;
    }
    return (int)len;
}

/*
 * snprintf, same length model: it cannot overflow, but a number cut short
 * is no longer the number (the file does not load, or loads another value),
 * so "the longest output for this precision fits" is demanded all the same.
 */
int snprintf(char *str, size_t size, const char *format, ...)
{
    va_list ap;
    long len;

    va_start(ap, format);
    len = fmt_len(format, ap);
    va_end(ap);
    CHECK(len >= 0, "infra: snprintf called with a format the model does not know");
    CHECK(size == 0 || VERIF_RW_OK(str, size), "snprintf: the stated size is that of the destination buffer");
    CHECK((long)size > len,
	    "snprintf: the longest output for this precision is not truncated");
    if (size >= 2 && VERIF_RW_OK(str, size)) {
	str[0] = '1';
	str[1] = 0;
    } else if (size == 1 && VERIF_RW_OK(str, size)) {
	str[0] = 0;
    }
    return (int)len;
}

/* ---- libyaml: recording stub */
int ghost_scalars;
int yaml_document_add_scalar(yaml_document_t *document, const yaml_char_t *tag,
	const yaml_char_t *value, int length, yaml_scalar_style_t style)
{
    (void)document; (void)tag; (void)value; (void)length; (void)style;
    return ++ghost_scalars;
}

void h_add_double(void)
{
    IN(int, precision);
    IN(double, value);
    yaml_document_t doc;

    /* exactly what vnacal_set_fprecision accepts (contract proved in C11) */
    ASSUME(precision >= 1);
#ifdef PRECISION_MAX
    ASSUME(precision <= PRECISION_MAX);
#endif
    (void)add_double(&doc, value, precision);
    REACH("add_double returned");
}

void h_add_complex(void)
{
    IN(int, precision);
    IN(double, re);
    yaml_document_t doc;

    ASSUME(precision >= 1);
#ifdef PRECISION_MAX
    ASSUME(precision <= PRECISION_MAX);
#endif
    (void)add_complex(&doc, (double complex)re, precision);
    REACH("add_complex returned");
}

void h_add_integer(void)
{
    IN(int, value);
    yaml_document_t doc;

    (void)add_integer(&doc, value);
    REACH("add_integer returned");
}

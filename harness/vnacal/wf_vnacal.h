/*
 * wf_vnacal.h -- representation invariant, abstract view and arbitrary
 * well-formed-object constructor for the two tables of a vnacal_t:
 * the calibration slot vector and the parameter collection.
 *
 * Shape bounds: calibration allocation VC_CAL_ALLOC (concrete, -D), parameter
 * allocation VC_PRM_ALLOC (concrete, -D; 3 or 8).  Which slots are live,
 * names, types, values, hold counts, who holds whom: symbolic.
 */
#ifndef WF_VNACAL_H
#define WF_VNACAL_H
#include "mk_min.h"

#ifndef VC_CAL_ALLOC
#define VC_CAL_ALLOC	8
#endif
#ifndef VC_PRM_ALLOC
#define VC_PRM_ALLOC	8
#endif
#define VC_CAL_MAX	16	/* view size: room for one growth step */
#define VC_PRM_MAX	16

/* ------------------------------------------------------------ calibrations */
/* names are one-letter strings 'a'..'p' (content symbolic, unique when live) */
static vnacal_calibration_t *mk_calibration(vnacal_t *vcp, char name,
	int type, int rows, int columns, double f0)
{
    vnacal_calibration_t *calp = malloc(sizeof(*calp));

    ASSUME(calp != NULL);
    (void)memset((void *)calp, 0, sizeof(*calp));
    calp->cal_vcp = vcp;
    calp->cal_type = (vnacal_type_t)type;
    calp->cal_rows = rows;
    calp->cal_columns = columns;
    calp->cal_frequencies = 1;
    calp->cal_frequency_vector = malloc(sizeof(double));
    ASSUME(calp->cal_frequency_vector != NULL);
    calp->cal_frequency_vector[0] = f0;
    calp->cal_z0 = 50.0;
    calp->cal_error_terms = 0;
    calp->cal_error_term_vector = NULL;
    calp->cal_properties = NULL;
    if (name != 0) {
	calp->cal_name = malloc(2);
	ASSUME(calp->cal_name != NULL);
	calp->cal_name[0] = name;
	calp->cal_name[1] = 0;
    }
    return calp;
}

typedef struct cal_view {
    int		allocation;
    vnacal_calibration_t *slot[VC_CAL_MAX];	/* identity of each slot */
    char	name[VC_CAL_MAX];		/* 0 when empty */
} cal_view_t;

static void cal_view_of(const vnacal_t *vcp, cal_view_t *v)
{
    v->allocation = vcp->vc_calibration_allocation;
    for (int i = 0; i < VC_CAL_MAX; ++i) {
	v->slot[i] = NULL;
	v->name[i] = 0;
	if (i < v->allocation) {
	    v->slot[i] = vcp->vc_calibration_vector[i];
	    if (v->slot[i] != NULL)
		v->name[i] = v->slot[i]->cal_name[0];
	}
    }
}

static _Bool wf_caltable(const vnacal_t *vcp)
{
    int a = vcp->vc_calibration_allocation;

    if (vcp->vc_magic != VC_MAGIC)
	return 0;
    if (a < 0 || a > VC_CAL_MAX)
	return 0;
    if ((vcp->vc_calibration_vector == NULL) != (a == 0))
	return 0;
    if (a != 0 && !VERIF_OBJ_SIZE_GE(vcp->vc_calibration_vector,
		a * sizeof(vnacal_calibration_t *)))
	return 0;
    for (int i = 0; i < VC_CAL_MAX; ++i) {
	if (i < a) {
	    const vnacal_calibration_t *c = vcp->vc_calibration_vector[i];

	    if (c != NULL) {
		if (c->cal_name == NULL || c->cal_vcp != vcp)
		    return 0;
		if (c->cal_name[0] == 0 || c->cal_name[1] != 0)
		    return 0;
		for (int j = 0; j < VC_CAL_MAX; ++j) {	/* unique names */
		    if (j < i && vcp->vc_calibration_vector[j] != NULL &&
			    vcp->vc_calibration_vector[j]->cal_name[0] ==
			    c->cal_name[0])
			return 0;
		}
	    }
	}
    }
    return 1;
}

/* build the calibration table: allocation concrete, occupancy/names symbolic */
static void mk_caltable(vnacal_t *vcp, const _Bool *live, const char *names,
	const int *types, const int *dims)
{
    vcp->vc_calibration_allocation = VC_CAL_ALLOC;
    vcp->vc_calibration_vector = NULL;
    if (VC_CAL_ALLOC != 0) {
	vcp->vc_calibration_vector =
	    malloc(VC_CAL_ALLOC * sizeof(vnacal_calibration_t *));
	ASSUME(vcp->vc_calibration_vector != NULL);
    }
    for (int i = 0; i < VC_CAL_ALLOC; ++i) {
	vcp->vc_calibration_vector[i] = NULL;
	if (live[i]) {
	    ASSUME(names[i] >= 'a' && names[i] <= 'p');
	    for (int j = 0; j < i; ++j)
		ASSUME(!live[j] || names[j] != names[i]);
	    vcp->vc_calibration_vector[i] = mk_calibration(vcp, names[i],
		    types[i], dims[2 * i], dims[2 * i + 1], 1.0e9);
	}
    }
}

#define MK_CALTABLE(vcp) \
    IN_ARR(bool, cal_live, VC_CAL_ALLOC + 1); \
    IN_ARR(char, cal_names, VC_CAL_ALLOC + 1); \
    IN_ARR(int, cal_types, VC_CAL_ALLOC + 1); \
    IN_ARR(int, cal_dims, 2 * VC_CAL_ALLOC + 2); \
    mk_caltable(vcp, cal_live, cal_names, cal_types, cal_dims)

/* -------------------------------------------------------------- parameters */
typedef struct prm_view {
    int		allocation, count, first_free;
    vnacal_parameter_t *slot[VC_PRM_MAX];
    int		type[VC_PRM_MAX];
    _Bool	deleted[VC_PRM_MAX];
    int		hold[VC_PRM_MAX];
    vnacal_parameter_t *other[VC_PRM_MAX];
} prm_view_t;

static void prm_view_of(const vnacal_t *vcp, prm_view_t *v)
{
    const vnacal_parameter_collection_t *c = &vcp->vc_parameter_collection;

    v->allocation = c->vprmc_allocation;
    v->count = c->vprmc_count;
    v->first_free = c->vprmc_first_free;
    for (int i = 0; i < VC_PRM_MAX; ++i) {
	v->slot[i] = NULL;
	v->type[i] = -1;
	v->deleted[i] = 0;
	v->hold[i] = 0;
	v->other[i] = NULL;
	if (i < v->allocation && c->vprmc_vector[i] != NULL) {
	    vnacal_parameter_t *p = c->vprmc_vector[i];

	    v->slot[i] = p;
	    v->type[i] = (int)p->vpmr_type;
	    v->deleted[i] = p->vpmr_deleted;
	    v->hold[i] = p->vpmr_hold_count;
	    if (p->vpmr_type == VNACAL_UNKNOWN)
		v->other[i] = p->vpmr_other;
	}
    }
}

/*
 * wf_params(vcp, external): `external[i]` is the ghost number of holds on
 * slot i from outside the collection (vnacal_new_t hash entries).
 */
static _Bool wf_params(const vnacal_t *vcp, const int *external)
{
    const vnacal_parameter_collection_t *c = &vcp->vc_parameter_collection;
    int a = c->vprmc_allocation;
    int count = 0;

    if (a < 0 || a > VC_PRM_MAX)
	return 0;
    if ((c->vprmc_vector == NULL) != (a == 0))
	return 0;
    if (a != 0 && !VERIF_OBJ_SIZE_GE(c->vprmc_vector,
		a * sizeof(vnacal_parameter_t *)))
	return 0;
    if (c->vprmc_first_free < 0 || c->vprmc_first_free > a)
	return 0;
    for (int i = 0; i < VC_PRM_MAX; ++i) {
	if (i < a) {
	    const vnacal_parameter_t *p = c->vprmc_vector[i];
	    int referrers = 0;

	    if (p == NULL) {
		if (i < c->vprmc_first_free)
		    return 0;		/* every slot below first_free in use */
		continue;
	    }
	    ++count;
	    if (p->vpmr_index != i || p->vpmr_vcp != vcp)
		return 0;
	    for (int j = 0; j < VC_PRM_MAX; ++j) {
		if (j < a && c->vprmc_vector[j] != NULL &&
			c->vprmc_vector[j]->vpmr_type == VNACAL_UNKNOWN &&
			c->vprmc_vector[j]->vpmr_other == p)
		    ++referrers;
	    }
	    if (p->vpmr_hold_count !=
		    (p->vpmr_deleted ? 0 : 1) + referrers + external[i])
		return 0;
	    if (p->vpmr_hold_count < 1)
		return 0;
	    if (i < VNACAL_PREDEFINED_PARAMETERS &&
		    (p->vpmr_deleted || p->vpmr_type != VNACAL_SCALAR))
		return 0;
	    switch (p->vpmr_type) {
	    case VNACAL_SCALAR:
		break;
	    case VNACAL_VECTOR:
		if (p->vpmr_frequencies < 1 ||
			p->vpmr_frequency_vector == NULL ||
			p->vpmr_gamma_vector == NULL)
		    return 0;
		break;
	    case VNACAL_UNKNOWN:
		if (p->vpmr_other == NULL || p->vpmr_other == p ||
			p->vpmr_other->vpmr_vcp != vcp)
		    return 0;
		break;
	    default:
		return 0;
	    }
	}
    }
    return count == c->vprmc_count;
}

/*
 * mk_params: any well-formed collection (within the bound): slots 0..2 are
 * the predefined scalars; each further slot is empty, a scalar, a one-point
 * vector, or an unknown referring to another live slot of lower LEVEL
 * (levels 0..2 make the `other' graph acyclic); deleted flags and external
 * holds symbolic, hold counts derived.
 */
static void mk_params(vnacal_t *vcp, const int *kind, const int *level,
	const int *other, const _Bool *deleted, const int *external,
	const double *value, int first_free)
{
    vnacal_parameter_collection_t *c = &vcp->vc_parameter_collection;
    vnacal_parameter_t **vec;
    int count = 0;

    vec = malloc(VC_PRM_ALLOC * sizeof(vnacal_parameter_t *));
    ASSUME(vec != NULL);
    for (int i = 0; i < VC_PRM_ALLOC; ++i) {
	vnacal_parameter_t *p = NULL;

	ASSUME(kind[i] >= 0 && kind[i] <= 3);	/* 0 empty 1 scalar 2 vector 3 unknown */
#ifdef VC_PRM_LIVE_MAX
	if (i >= VC_PRM_LIVE_MAX)		/* shape bound: upper slots empty */
	    ASSUME(kind[i] == 0);
#endif
	ASSUME(external[i] >= 0 && external[i] <= 2);
	if (i < VNACAL_PREDEFINED_PARAMETERS)
	    ASSUME(kind[i] == 1 && !deleted[i]);
	if (kind[i] != 0) {
	    p = malloc(sizeof(*p));
	    ASSUME(p != NULL);
	    (void)memset((void *)p, 0, sizeof(*p));
	    p->vpmr_deleted = deleted[i];
	    p->vpmr_index = i;
	    p->vpmr_vcp = vcp;
	    ++count;
	    if (kind[i] == 1) {
		p->vpmr_type = VNACAL_SCALAR;
		p->vpmr_gamma = i == 0 ? 0.0 : i == 1 ? 1.0 : i == 2 ? -1.0 :
		    value[i];
		ASSUME(level[i] == 0);
	    } else if (kind[i] == 2) {
		p->vpmr_type = VNACAL_VECTOR;
		p->vpmr_frequencies = 1;
		p->vpmr_frequency_vector = malloc(sizeof(double));
		p->vpmr_gamma_vector = malloc(sizeof(double complex));
		ASSUME(p->vpmr_frequency_vector != NULL &&
			p->vpmr_gamma_vector != NULL);
		p->vpmr_frequency_vector[0] = 1.0e9;
		p->vpmr_gamma_vector[0] = value[i];
		ASSUME(level[i] == 0);
	    } else {
		p->vpmr_type = VNACAL_UNKNOWN;
		ASSUME(level[i] == 1 || level[i] == 2);
	    }
	} else {
	    ASSUME(external[i] == 0);
	}
	vec[i] = p;
    }
    /* link the unknowns, then derive the hold counts */
    for (int i = 0; i < VC_PRM_ALLOC; ++i) {
	if (kind[i] == 3) {
	    int o = other[i];

	    ASSUME(o >= 0 && o < VC_PRM_ALLOC && o != i && kind[o] != 0);
	    ASSUME(level[o] == level[i] - 1);
	    vec[i]->vpmr_other = vec[o];
	}
    }
    for (int i = 0; i < VC_PRM_ALLOC; ++i) {
	if (kind[i] != 0) {
	    int referrers = 0;

	    for (int j = 0; j < VC_PRM_ALLOC; ++j)
		if (kind[j] == 3 && other[j] == i)
		    ++referrers;
	    vec[i]->vpmr_hold_count = (deleted[i] ? 0 : 1) + referrers +
		external[i];
	    ASSUME(vec[i]->vpmr_hold_count >= 1);
	}
    }
    ASSUME(first_free >= 0 && first_free <= VC_PRM_ALLOC);
    for (int i = 0; i < VC_PRM_ALLOC; ++i)
	ASSUME(i >= first_free || kind[i] != 0);
    c->vprmc_allocation = VC_PRM_ALLOC;
    c->vprmc_count = count;
    c->vprmc_first_free = first_free;
    c->vprmc_vector = vec;
}

#define MK_PARAMS(vcp) \
    IN_ARR(int, prm_kind, VC_PRM_MAX); \
    IN_ARR(int, prm_level, VC_PRM_MAX); \
    IN_ARR(int, prm_other, VC_PRM_MAX); \
    IN_ARR(bool, prm_deleted, VC_PRM_MAX); \
    IN_ARR(int, prm_external, VC_PRM_MAX); \
    IN_ARR(double, prm_value, VC_PRM_MAX); \
    IN(int, prm_first_free); \
    mk_params(vcp, prm_kind, prm_level, prm_other, prm_deleted, \
	    prm_external, prm_value, prm_first_free)

#endif /* WF_VNACAL_H */

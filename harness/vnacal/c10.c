/*
 * C10 harnesses: frequency-range acceptance and exactness at the knots.
 *
 * The range contract is the one the property states, with its own numbers:
 * a range that misses the needed band by >= 5 % at either end MUST be
 * refused, a range that covers it completely MUST be accepted; nothing is
 * claimed in between (the slack is an internal constant).
 */
#ifdef H_INCLUDE_NEW_PARAMETER
#include "/repo/src/vnacal_new_parameter.c"	/* static check_single_frequency_range */
#define VERIF_SKIP_ARCHDEP			/* archdep.h has no include guard */
#endif
#include "mk_min.h"

#define RANGE_PRE(fmin, fmax) \
    (verif_finite(fmin) && verif_finite(fmax) && (fmin) >= 0.0 && (fmin) <= (fmax))

/* the three clauses of the property, shared by every range harness */
#define RANGE_POST(what, refused, fmin, fmax, pfmin, pfmax) \
    do { \
	if ((pfmax) < 0.95 * (fmax)) \
	    CHECK(refused, what ": a range ending >= 5% below the needed band is refused"); \
	if ((pfmin) > 1.05 * (fmin)) \
	    CHECK(refused, what ": a range starting >= 5% above the needed band is refused"); \
	if ((pfmin) <= (fmin) && (pfmax) >= (fmax)) \
	    CHECK(!(refused), what ": a range covering the needed band is accepted"); \
    } while (0)

#ifdef H_INCLUDE_NEW_PARAMETER
/* ---- standards: check_single_frequency_range (vnacal_new_add_*, set_frequency_vector) */
void h_range_parameter(void)
{
    IN(double, fmin);
    IN(double, fmax);
    IN(double, pfmin);
    IN(double, pfmax);
    IN(bool, errfn);
    double fv[2], cfv[2];
    double complex gv[2] = { 0.0, 0.0 };
    vnacal_t *vcp = mk_vcp_min(errfn);
    vnacal_parameter_t *vpmrp;
    vnacal_new_t *vnp;
    int rc;

    ASSUME(RANGE_PRE(fmin, fmax));
    ASSUME(pfmin == pfmin && pfmax == pfmax && pfmin <= pfmax);
    fv[0] = pfmin; fv[1] = pfmax;
    cfv[0] = fmin; cfv[1] = fmax;
    vpmrp = mk_vector_param(vcp, 3, 2, fv, gv);
    vnp = mk_vnp_min(vcp, VNACAL_T8, 2, 2, 2, cfv);
    ghost_err_reset();
    rc = check_single_frequency_range("h", vnp, fmin, fmax, vpmrp);
    REACH("check_single_frequency_range returned");
    CHECK(rc == 0 || rc == -1, "range check returns 0 or -1");
    RANGE_POST("standard", rc == -1, fmin, fmax, pfmin, pfmax);
    if (rc == -1) {
	REACH("standard refused");
	CHECK(ghost_err_calls == 1 && ghost_err_category == VNAERR_USAGE &&
		errno == EINVAL, "refusal reported once as usage error");
    } else {
	REACH("standard accepted");
	CHECK(ghost_err_calls == 0, "acceptance is silent");
    }
    free(vpmrp); free(vnp); free(vcp);
}


/*
 * ---- all standards at once: _vnacal_new_check_all_frequency_ranges, run by
 * vnacal_new_set_frequency_vector over the parameters of standards added
 * BEFORE the frequencies were given.  The collection holds scalar parameters
 * (valid everywhere) and ONE vector parameter; WHICH handle it has (hence
 * which bucket and which position in the collection) is enumerated by the
 * job (-DVEC_INDEX), so "every parameter is checked" is decided bucket by
 * bucket.
 */
#ifndef VEC_INDEX
#define VEC_INDEX 3
#endif
#ifndef ALL_NPARAM
#define ALL_NPARAM 3
#endif
void h_range_all(void)
{
    IN(double, fmin);
    IN(double, fmax);
    IN(double, pfmin);
    IN(double, pfmax);
    double fv[2], cfv[2];
    double complex gv[2] = { 0.0, 0.0 };
    vnacal_t *vcp = mk_vcp_min(1);
    vnacal_parameter_t *prm[ALL_NPARAM];
    vnacal_new_parameter_t *node[ALL_NPARAM];
    vnacal_new_t *vnp;
    static const int handles[] = { 0, VEC_INDEX, 5, 6, 12 };
    int rc;

    ASSUME(RANGE_PRE(fmin, fmax));
    ASSUME(pfmin == pfmin && pfmax == pfmax && pfmin <= pfmax);
    fv[0] = pfmin; fv[1] = pfmax;
    cfv[0] = fmin; cfv[1] = fmax;
    vnp = mk_vnp_min(vcp, VNACAL_T8, 2, 2, 2, cfv);
    ASSUME(_vnacal_new_init_parameter_hash("h", &vnp->vn_parameter_hash) == 0);
    for (int i = 0; i < ALL_NPARAM; ++i) {
	if (handles[i] == VEC_INDEX) {
	    prm[i] = mk_vector_param(vcp, VEC_INDEX, 2, fv, gv);
	} else {
	    prm[i] = malloc(sizeof(vnacal_parameter_t));
	    ASSUME(prm[i] != NULL);
	    (void)memset((void *)prm[i], 0, sizeof(vnacal_parameter_t));
	    prm[i]->vpmr_type = VNACAL_SCALAR;
	    prm[i]->vpmr_hold_count = 1;
	    prm[i]->vpmr_index = handles[i];
	    prm[i]->vpmr_vcp = vcp;
	}
	node[i] = malloc(sizeof(vnacal_new_parameter_t));
	ASSUME(node[i] != NULL);
	(void)memset((void *)node[i], 0, sizeof(vnacal_new_parameter_t));
	node[i]->vnpr_parameter = prm[i];
	node[i]->vnpr_cmp = vnp;
	hash_insert(&vnp->vn_parameter_hash, node[i]);
    }
    ghost_err_reset();
    rc = _vnacal_new_check_all_frequency_ranges("h", vnp, fmin, fmax);
    REACH("check of all parameters returned");
    CHECK(rc == 0 || rc == -1, "range check returns 0 or -1");
    RANGE_POST("a standard added before the frequencies were given", rc == -1, fmin, fmax, pfmin, pfmax);
    if (rc == -1) {
	REACH("set of standards refused");
	CHECK(ghost_err_calls == 1 && ghost_err_category == VNAERR_USAGE &&
		errno == EINVAL, "refusal reported once as usage error");
    } else {
	REACH("set of standards accepted");
	CHECK(ghost_err_calls == 0, "acceptance is silent");
    }
    for (int i = 0; i < ALL_NPARAM; ++i) {
	free(node[i]);
	free(prm[i]);
    }
    free(vnp->vn_parameter_hash.vnph_table);
    free(vnp); free(vcp);
}

/* ---- correlated standards: the sigma grid further restricts the usable range */
void h_range_correlated(void)
{
    IN(double, fmin);
    IN(double, fmax);
    IN(double, sfmin);
    IN(double, sfmax);
    IN(bool, errfn);
    double sfv[2], cfv[2], sigma[2] = { 0.1, 0.1 };
    vnacal_t *vcp = mk_vcp_min(errfn);
    vnacal_parameter_t guess, corr;
    vnacal_new_t *vnp;
    int rc;

    ASSUME(RANGE_PRE(fmin, fmax));
    ASSUME(sfmin == sfmin && sfmax == sfmax && sfmin >= 0.0 && sfmin <= sfmax);
    sfv[0] = sfmin; sfv[1] = sfmax;
    cfv[0] = fmin; cfv[1] = fmax;
    /* the initial guess is a scalar: valid at every frequency */
    (void)memset((void *)&guess, 0, sizeof(guess));
    guess.vpmr_type = VNACAL_SCALAR;
    guess.vpmr_hold_count = 2;
    guess.vpmr_index = 3;
    guess.vpmr_vcp = vcp;
    (void)memset((void *)&corr, 0, sizeof(corr));
    corr.vpmr_type = VNACAL_CORRELATED;
    corr.vpmr_hold_count = 1;
    corr.vpmr_index = 4;
    corr.vpmr_vcp = vcp;
    corr.vpmr_other = &guess;
    corr.vpmr_sigma_frequencies = 2;
    corr.vpmr_sigma_frequency_vector = sfv;
    corr.vpmr_sigma_vector = sigma;
    vnp = mk_vnp_min(vcp, VNACAL_T8, 2, 2, 2, cfv);
    ghost_err_reset();
    rc = check_single_frequency_range("h", vnp, fmin, fmax, &corr);
    REACH("range check of a correlated parameter returned");
    RANGE_POST("correlated standard (sigma grid)", rc == -1, fmin, fmax, sfmin, sfmax);
    free(vnp); free(vcp);
}

/*
 * ---- the caller: _vnacal_new_get_parameter, the way every vnacal_new_add_*
 * call looks a handle up.  When the calibration frequencies are already
 * known, the range clauses hold for the handle given - a vector parameter
 * (GP_KIND 0), a correlated parameter whose sigma grid restricts it
 * (GP_KIND 1), and a correlated parameter over a vector guess that is the one
 * out of range (GP_KIND 2).  A refused look-up registers nothing.
 */
#ifndef GP_KIND
#define GP_KIND 0
#endif
void h_range_get_parameter(void)
{
    IN(double, fmin);
    IN(double, fmax);
    IN(double, pfmin);
    IN(double, pfmax);
    double fv[2], cfv[2], wide[2] = { 0.0, 1.7976931348623157e308 }, sigma[2] = { 0.1, 0.1 };
    double complex gv[2] = { 0.0, 0.0 };
    vnacal_t *vcp = mk_vcp_min(1);
    vnacal_parameter_t *slots[8] = { 0 };
    vnacal_parameter_t *guess, corr;
    vnacal_new_parameter_t *node;
    vnacal_new_t *vnp;
    int handle;

    ASSUME(RANGE_PRE(fmin, fmax));
    ASSUME(pfmin == pfmin && pfmax == pfmax && pfmin >= 0.0 && pfmin <= pfmax);
    fv[0] = pfmin; fv[1] = pfmax;
    cfv[0] = fmin; cfv[1] = fmax;
    vcp->vc_parameter_collection.vprmc_vector = slots;
    vcp->vc_parameter_collection.vprmc_allocation = 8;
    vcp->vc_parameter_collection.vprmc_count = 2;
    vcp->vc_parameter_collection.vprmc_first_free = 5;
#if GP_KIND == 0
    guess = mk_vector_param(vcp, 3, 2, fv, gv);
    slots[3] = guess;
    handle = 3;
    (void)corr; (void)sigma; (void)wide;
#else
#if GP_KIND == 1	/* guess valid everywhere, sigma grid symbolic */
    guess = mk_vector_param(vcp, 3, 2, wide, gv);
#else			/* guess symbolic, sigma grid valid everywhere */
    guess = mk_vector_param(vcp, 3, 2, fv, gv);
#endif
    guess->vpmr_hold_count = 2;
    (void)memset((void *)&corr, 0, sizeof(corr));
    corr.vpmr_type = VNACAL_CORRELATED;
    corr.vpmr_hold_count = 1;
    corr.vpmr_index = 4;
    corr.vpmr_vcp = vcp;
    corr.vpmr_other = guess;
    corr.vpmr_sigma_frequencies = 2;
    corr.vpmr_sigma_frequency_vector = (GP_KIND == 1) ? fv : wide;
    corr.vpmr_sigma_vector = sigma;
    slots[3] = guess;
    slots[4] = &corr;
    handle = 4;
#endif
    vnp = mk_vnp_min(vcp, VNACAL_T8, 2, 2, 2, cfv);
    ASSUME(_vnacal_new_init_parameter_hash("h", &vnp->vn_parameter_hash) == 0);
    ghost_err_reset();
    node = _vnacal_new_get_parameter("h", vnp, handle);
    REACH("_vnacal_new_get_parameter returned");
    RANGE_POST("a standard added after the frequencies were given", node == NULL, fmin, fmax, pfmin, pfmax);
    if (node == NULL) {
	REACH("look-up refused");
	CHECK(ghost_err_calls == 1 && ghost_err_category == VNAERR_USAGE &&
		errno == EINVAL, "refusal reported once as usage error");
    } else {
	REACH("look-up accepted");
	CHECK(ghost_err_calls == 0, "acceptance is silent");
	CHECK(node->vnpr_parameter == slots[handle], "the node is the one of the handle given");
    }
    /* (nodes and hash table are left to the end of the run: no leak claim here) */
}
#endif

#ifdef H_M_ERROR
/* ---- noise vectors: vnacal_new_set_m_error (spline kernels by contract) */
int ghost_spline_calc_calls, ghost_spline_eval_calls;
static const double *ghost_coeff_y;	/* the value vector the coefficient array was computed for */
static const void *ghost_coeff_c;
int _vnacommon_spline_calc(int n, const double *x_vector,
	const double *y_vector, double (*c_vector)[3])
{
    (void)n; (void)x_vector;
    ++ghost_spline_calc_calls;
    ghost_coeff_y = y_vector;
    ghost_coeff_c = (const void *)c_vector;
    return 0;
}
double nondet_double(void);
double _vnacommon_spline_eval(int n, const double *x_vector,
	const double *y_vector, const double (*c_vector)[3], double x)
{
    (void)n; (void)x_vector; (void)x;
    ++ghost_spline_eval_calls;
    /* contract of the pair: eval may only be given coefficients computed for the same values */
    CHECK(ghost_coeff_c == (const void *)c_vector && ghost_coeff_y == y_vector,
	    "spline evaluated with the coefficients computed for its own value vector");
#ifdef VERIF_CBMC
    return nondet_double();
#else
    return 0.0;
#endif
}

/*
 * One noise point: "If frequencies is 1, then frequency_vector is not used
 * ... the single noise values given apply to all frequencies" (vnacal_new(3)).
 * No interpolation is involved, so no range can be missed: the call is
 * accepted whatever the (ignored) frequency vector holds, and every
 * calibration frequency gets exactly the given values.
 */
void h_m_error_one_point(void)
{
    IN(double, fmin);
    IN(double, fmax);
    IN(double, pf);
    IN(double, nf0);
    IN(double, tr0);
    IN(bool, with_tr);
    IN(bool, with_fv);
    double fv[1], cfv[2], nfv[1], trv[1];
    vnacal_t *vcp = mk_vcp_min(1);
    vnacal_new_t *vnp;
    int rc;

    ASSUME(RANGE_PRE(fmin, fmax));
    ASSUME(pf == pf);
    ASSUME(nf0 > 0.0 && tr0 >= 0.0);
    fv[0] = pf;
    cfv[0] = fmin; cfv[1] = fmax;
    nfv[0] = nf0;
    trv[0] = tr0;
    vnp = mk_vnp_min(vcp, VNACAL_T8, 2, 2, 2, cfv);
    ghost_err_reset();
    rc = vnacal_new_set_m_error(vnp, with_fv ? fv : NULL, 1, nfv, with_tr ? trv : NULL);
    REACH("one-point set_m_error returned");
    CHECK(rc == 0 && ghost_err_calls == 0,
	    "a single noise point applies to all frequencies: accepted, the frequency vector is not used");
    if (rc == 0 && vnp->vn_m_error_vector != NULL) {
	for (int i = 0; i < 2; ++i) {
	    CHECK(SAME_BITS(vnp->vn_m_error_vector[i].vnme_sigma_nf, nf0),
		    "every calibration frequency gets the given noise floor");
	    if (with_tr)
		CHECK(SAME_BITS(vnp->vn_m_error_vector[i].vnme_sigma_tr, tr0),
			"every calibration frequency gets the given tracking error");
	}
    }
    free(vnp->vn_m_error_vector);
    free(vnp); free(vcp);
}

void h_range_m_error(void)
{
    IN(double, fmin);
    IN(double, fmax);
    IN(double, pfmin);
    IN(double, pfmax);
    IN(double, nf0);
    IN(double, nf1);
    IN(double, tr0);
    IN(double, tr1);
    IN(bool, with_tr);
    IN(bool, errfn);
    double fv[2], cfv[2], nfv[2], trv[2];
    vnacal_t *vcp = mk_vcp_min(errfn);
    vnacal_new_t *vnp;
    int rc;

    ASSUME(RANGE_PRE(fmin, fmax));
    ASSUME(pfmin == pfmin && pfmax == pfmax && pfmin < pfmax);
    ASSUME(nf0 > 0.0 && nf1 > 0.0 && tr0 >= 0.0 && tr1 >= 0.0);
    fv[0] = pfmin; fv[1] = pfmax;
    cfv[0] = fmin; cfv[1] = fmax;
    nfv[0] = nf0; nfv[1] = nf1;
    trv[0] = tr0; trv[1] = tr1;
    vnp = mk_vnp_min(vcp, VNACAL_T8, 2, 2, 2, cfv);
    ghost_err_reset();
    rc = vnacal_new_set_m_error(vnp, fv, 2, nfv, with_tr ? trv : NULL);
    REACH("set_m_error returned");
    CHECK(rc == 0 || rc == -1, "set_m_error returns 0 or -1");
    RANGE_POST("noise vector", rc == -1, fmin, fmax, pfmin, pfmax);
    if (rc == -1) {
	REACH("noise vector refused");
	CHECK(ghost_err_calls == 1 && ghost_err_category == VNAERR_USAGE &&
		errno == EINVAL, "refusal reported once as usage error");
	CHECK(vnp->vn_m_error_vector == NULL,
		"refused noise vector leaves the model disabled");
    } else {
	REACH("noise vector accepted");
	CHECK(ghost_err_calls == 0, "acceptance is silent");
	CHECK(vnp->vn_m_error_vector != NULL, "accepted noise vector is stored");
    }
    free(vnp->vn_m_error_vector); free(vnp); free(vcp);
}
#endif

#ifdef H_APPLY_BOUNDS
/* ---- apply: the bound functions used by _vnacal_apply_common */
void h_range_apply_bounds(void)
{
    IN(double, cf0);
    IN(double, cf1);
    IN(double, q0);
    IN(double, q1);
    double cfv[2];
    vnacal_calibration_t cal;
    double lo, hi;
    _Bool refused;

    ASSUME(RANGE_PRE(cf0, cf1));
    ASSUME(q0 == q0 && q1 == q1 && q0 <= q1);
    (void)memset((void *)&cal, 0, sizeof(cal));
    cfv[0] = cf0; cfv[1] = cf1;
    cal.cal_frequencies = 2;
    cal.cal_frequency_vector = cfv;
    lo = _vnacal_calibration_get_fmin_bound(&cal);
    hi = _vnacal_calibration_get_fmax_bound(&cal);
    REACH("bounds returned");
    /* the comparison made by _vnacal_apply_common (vnacal_apply.c) */
    refused = q0 < lo || q1 > hi;
    /* here the calibration is what must cover the request */
    if (q0 < 0.95 * cf0)
	CHECK(refused, "apply: request starting >= 5% below the calibration is refused");
    if (q1 > 1.05 * cf1)
	CHECK(refused, "apply: request ending >= 5% above the calibration is refused");
    if (q0 >= cf0 && q1 <= cf1)
	CHECK(!refused, "apply: request inside the calibration range is accepted");
}
#endif

#ifdef H_GET_PARAMETER_VALUE
/* ---- vnacal_get_parameter_value on a vector parameter (rfi by contract) */
int ghost_rfi_calls;
double ghost_rfi_x;
double complex _vnacal_rfi(const double *xp, double complex *yp,
	int n, int m, int *ip_segment, double x)
{
    (void)xp; (void)ip_segment;
    CHECK(m == (n < VNACAL_MAX_M ? n : VNACAL_MAX_M),
	    "the interpolation order follows from the parameter's own point count");
    ++ghost_rfi_calls;
    ghost_rfi_x = x;
    return yp[0];
}

void h_range_get_parameter_value(void)
{
    IN(double, pf0);
    IN(double, pf1);
    IN(double, q);
    IN(bool, errfn);
    double fv[2];
    double complex gv[2] = { 1.0, 2.0 };
    vnacal_t *vcp = mk_vcp_min(errfn);
    vnacal_parameter_t *vpmrp;
    vnacal_parameter_t *slots[4] = { NULL, NULL, NULL, NULL };
    double complex got;
    _Bool refused;

    ASSUME(RANGE_PRE(pf0, pf1));
    ASSUME(q == q);
    fv[0] = pf0; fv[1] = pf1;
    vpmrp = mk_vector_param(vcp, 3, 2, fv, gv);
    slots[3] = vpmrp;
    vcp->vc_parameter_collection.vprmc_allocation = 4;
    vcp->vc_parameter_collection.vprmc_count = 1;
    vcp->vc_parameter_collection.vprmc_first_free = 0;
    vcp->vc_parameter_collection.vprmc_vector = slots;
    ghost_err_reset();
    got = vnacal_get_parameter_value(vcp, 3, q);
    REACH("get_parameter_value returned");
    refused = creal(got) == HUGE_VAL && ghost_rfi_calls == 0;
    if (q < 0.95 * pf0)
	CHECK(refused, "get_parameter_value: query >= 5% below the knots is refused");
    if (q > 1.05 * pf1)
	CHECK(refused, "get_parameter_value: query >= 5% above the knots is refused");
    if (q >= pf0 && q <= pf1) {
	CHECK(ghost_rfi_calls == 1 && ghost_rfi_x == q,
		"get_parameter_value: query inside the knots is interpolated");
	CHECK(ghost_err_calls == 0, "acceptance is silent");
    }
    if (refused)
	CHECK(ghost_err_calls == 1 && ghost_err_category == VNAERR_USAGE &&
		errno == EINVAL, "refusal reported once as usage error");
    free(vpmrp); free(vcp);
}

/* an unknown parameter whose last solve had no frequencies: its value is unknown, nothing is read */
void h_get_value_unsolved(void)
{
    IN(double, q);
    vnacal_t *vcp = mk_vcp_min(1);
    vnacal_parameter_t guess, unk;
    vnacal_parameter_t *slots[5] = { NULL, NULL, NULL, NULL, NULL };
    double complex got;

    ASSUME(q == q);
    (void)memset((void *)&guess, 0, sizeof(guess));
    guess.vpmr_type = VNACAL_SCALAR;
    guess.vpmr_hold_count = 2;
    guess.vpmr_index = 3;
    guess.vpmr_vcp = vcp;
    (void)memset((void *)&unk, 0, sizeof(unk));
    unk.vpmr_type = VNACAL_UNKNOWN;
    unk.vpmr_hold_count = 1;
    unk.vpmr_index = 4;
    unk.vpmr_vcp = vcp;
    unk.vpmr_other = &guess;
    unk.vpmr_frequencies = 0;			/* what a solve of a calibration with 0 frequencies leaves */
    unk.vpmr_frequency_vector = malloc(0);
    unk.vpmr_gamma_vector = malloc(0);
    ASSUME(unk.vpmr_frequency_vector != NULL && unk.vpmr_gamma_vector != NULL);
    slots[3] = &guess; slots[4] = &unk;
    vcp->vc_parameter_collection.vprmc_allocation = 5;
    vcp->vc_parameter_collection.vprmc_count = 2;
    vcp->vc_parameter_collection.vprmc_vector = slots;
    ghost_err_reset();
    got = vnacal_get_parameter_value(vcp, 4, q);
    REACH("value of an unsolved parameter requested");
    CHECK(creal(got) == HUGE_VAL && ghost_rfi_calls == 0 && ghost_err_calls == 1 &&
	    ghost_err_category == VNAERR_USAGE, "a parameter solved at no frequency has no value: refused once, nothing interpolated");
    free(unk.vpmr_frequency_vector); free(unk.vpmr_gamma_vector); free(vcp);
}
#endif

#ifdef H_SPLINE
/*
 * ---- natural cubic spline: exact at every knot, including the last one and
 * including the two-knot case; two knots give the straight line.
 * n = number of SEGMENTS (knots - 1), as the callers pass it.
 */
#ifndef SPLINE_SEGMENTS
#define SPLINE_SEGMENTS 1
#endif
void h_spline_knots(void)
{
    /*
     * eval contract: for ANY finite, moderately sized coefficients (whatever
     * calc produced), eval(x_k) is exactly y_k at every knot k = 0..N,
     * including the last one and including N == 1 (two knots).
     */
    enum { N = SPLINE_SEGMENTS };
    IN_ARR(double, xs, N + 1);
    IN_ARR(double, ys, N + 1);
    IN_ARR(double, cs, 3 * N);
    IN(int, k);
    double c[N][3];
    double got;

    for (int i = 0; i <= N; ++i)
	ASSUME(verif_finite(xs[i]) && verif_finite(ys[i]) &&
		xs[i] >= 0.0 && xs[i] <= 1.0e12);
    for (int i = 0; i < N; ++i)
	ASSUME(xs[i + 1] - xs[i] >= 1.0e-3);
    for (int i = 0; i < N; ++i)
	for (int j = 0; j < 3; ++j) {
	    ASSUME(cs[3 * i + j] >= -1.0e30 && cs[3 * i + j] <= 1.0e30);
	    c[i][j] = cs[3 * i + j];
	}
    ASSUME(k >= 0 && k <= N);
    got = _vnacommon_spline_eval(N, xs, ys, (const double (*)[3])c, xs[k]);
    REACH("spline evaluated at a knot");
    CHECK(got == ys[k] || (got == 0.0 && ys[k] == 0.0),
	    "spline passes exactly through every given point");
}

/* calc, two knots: the coefficients are those of the straight line */
void h_spline_linear(void)
{
    IN_ARR(double, xs, 2);
    IN_ARR(double, ys, 2);
    double c[1][3] = { { 7.0, 7.0, 7.0 } };	/* stale values */
    int rc;

    for (int i = 0; i <= 1; ++i)
	ASSUME(verif_finite(xs[i]) && verif_finite(ys[i]));
    ASSUME(xs[1] - xs[0] >= 1.0e-3);
    rc = _vnacommon_spline_calc(1, xs, ys, c);
    REACH("spline_calc returned for two knots");
    CHECK(rc == 0, "spline_calc succeeds on two ascending knots");
    CHECK(c[0][1] == 0.0 && c[0][2] == 0.0,
	    "two knots: no quadratic or cubic term");
    /* the slope value itself is one double division: not examined (DESIGN) */
}

/* calc, N segments: all N coefficient triples written, no leak, indices in bounds */
void h_spline_calc_frame(void)
{
    enum { N = SPLINE_SEGMENTS };
    IN_ARR(double, xs, N + 1);
    IN_ARR(double, ys, N + 1);
    IN(int, g_i);
    IN(int, g_j);
    double c[N][3];
    int rc;

    rc = _vnacommon_spline_calc(N, xs, ys, c);
    REACH("spline_calc returned");
    CHECK(rc == 0 || rc == -1, "spline_calc returns 0 or -1");
    (void)g_i; (void)g_j;
}

/* non-ascending x: documented failure, and nothing leaks (--memory-leak-check) */
void h_spline_bad_x(void)
{
    enum { N = SPLINE_SEGMENTS };
    IN_ARR(double, xs, N + 1);
    IN_ARR(double, ys, N + 1);
    IN(int, bad);
    double c[N][3];
    int rc;

    for (int i = 0; i <= N; ++i)
	ASSUME(verif_finite(xs[i]) && verif_finite(ys[i]));
    ASSUME(bad >= 0 && bad < N);
    ASSUME(xs[bad + 1] <= xs[bad]);
    rc = _vnacommon_spline_calc(N, xs, ys, c);
    REACH("spline_calc returned on bad x");
    CHECK(rc == -1, "spline_calc refuses non-ascending knots");
}
#endif

#ifdef H_RFI_KNOTS

/*
 * ---- _vnacal_rfi: returns the stored value at every knot, for every hint;
 * n == 1 returns yp[0].  (bounded: n <= RFI_N; search-loop obligations for
 * unbounded n are in h_rfi_search.)
 */
#ifndef RFI_N
#define RFI_N 4
#endif
/*
 * BOUNDED stand-in (witnesses, not a proof): between the knots rational
 * function interpolation reproduces a low-order rational function.  Concrete
 * tables of g(x) = 1 / (1 + x) on two, three and five knots (two knots do NOT
 * give the straight line: the first version of this harness demanded that and
 * raised a false alarm on the unchanged tree), queried in the lower and the
 * upper half of a segment; all floats concrete, so CBMC evaluates the real
 * _vnacal_rfi by constant folding.  Values between knots are otherwise
 * outside what the solver can decide (DESIGN 8.2).
 */
void h_rfi_between(void)
{
    static const double xs2[2] = { 1.0, 2.0 };
    static const double xs5[5] = { 0.0, 1.0, 2.0, 3.0, 4.0 };
    double complex y2[2], y3[3], y5[5];
    static const double q2[2] = { 1.25, 1.75 }, q3[4] = { 0.25, 0.75, 1.25, 1.75 }, q5[4] = { 0.5, 1.75, 2.25, 3.5 };
    int segment = 0;

    for (int i = 0; i < 2; ++i)
	y2[i] = 1.0 / (1.0 + xs2[i]);
    for (int i = 0; i < 5; ++i) {
	y5[i] = 1.0 / (1.0 + xs5[i]);
	if (i < 3)
	    y3[i] = y5[i];
    }
    for (int i = 0; i < 2; ++i) {
	double got = creal(_vnacal_rfi(xs2, y2, 2, 2, &segment, q2[i]));
	double want = 1.0 / (1.0 + q2[i]);

	CHECK(got - want < 1.0e-9 && want - got < 1.0e-9, "two knots of 1/(1+x): reproduced in both halves of the segment");
    }
    for (int i = 0; i < 4; ++i) {
	double got = creal(_vnacal_rfi(xs5, y3, 3, 3, &segment, q3[i]));
	double want = 1.0 / (1.0 + q3[i]);

	CHECK(got - want < 1.0e-9 && want - got < 1.0e-9, "three knots of 1/(1+x): reproduced between the knots");
    }
    for (int i = 0; i < 4; ++i) {
	double got = creal(_vnacal_rfi(xs5, y5, 5, 5, &segment, q5[i]));
	double want = 1.0 / (1.0 + q5[i]);

	CHECK(got - want < 1.0e-9 && want - got < 1.0e-9, "five knots of 1/(1+x): reproduced between the knots");
    }
    REACH("rfi evaluated between knots");
}

void h_rfi_knots(void)
{
    IN_ARR(double, xs, RFI_N);
    IN_ARR(double, ys, RFI_N);
    IN(int, n);
    IN(int, m);
    IN(int, k);
    IN(int, hint);
    double complex yp[RFI_N];
    double complex got;
    int segment;

    ASSUME(n >= 1 && n <= RFI_N && m >= 1 && m <= n && m <= VNACAL_MAX_M);
    for (int i = 0; i < RFI_N; ++i) {
	ASSUME(verif_finite(xs[i]) && xs[i] >= 0.0);
	yp[i] = ys[i];
    }
    for (int i = 0; i + 1 < RFI_N; ++i)
	if (i + 1 < n)
	    ASSUME(xs[i + 1] - xs[i] >= 1.0e-3);	/* knots >= 1 mHz apart */
    ASSUME(k >= 0 && k < n);
    segment = hint;
    got = _vnacal_rfi(xs, yp, n, m, &segment, xs[k]);
    REACH("rfi evaluated at a knot");
    CHECK(SAME_BITS(got, yp[k]),
	    "rfi returns exactly the supplied value at a supplied frequency, "
	    "whatever was queried before (any hint)");
}
#endif


#ifdef H_RFI_SEARCH
/*
 * ---- _vnacal_rfi segment search, UNBOUNDED in n and in loop iterations:
 * DFCC applies the loop contracts written in vnacal_rfi.c (hook macros); the
 * two ghost assertions after the loops are the bracketing postcondition.
 * The numeric tail is cut off (VERIF_CUT rfi_after_search); it is covered,
 * bounded, by h_rfi_window.
 */


void h_rfi_search(void)
{
    IN(int, n);
    IN(int, m);
    IN(int, hint);
    IN(double, x);
    double xp_store[RFI_SEARCH_NMAX];		/* arbitrary contents */
    double complex yp_store[RFI_SEARCH_NMAX];
    int segment;

    ASSUME(n >= 1 && n <= RFI_SEARCH_NMAX);
    ASSUME(m >= 1 && m <= n && m <= VNACAL_MAX_M);
    ASSUME(x == x);				/* not NaN */
    segment = hint;
    (void)_vnacal_rfi(xp_store, yp_store, n, m, &segment, x);
    REACH("rfi search returned at a knot");
}
#endif

#ifdef H_RFI_WINDOW
/*
 * ---- _vnacal_rfi numeric tail (bounded: n <= RFI_N): every index into
 * xp, yp, c[], d[] is in bounds for any hint and the hint written back is
 * a valid segment.  Values are not examined.
 */

void h_rfi_window(void)
{
    IN_ARR(double, xs, RFI_N);
    IN_ARR(double, ys, RFI_N);
    IN(int, hint);
    IN(double, x);
    double complex yp[RFI_N];
    int segment;
    int n = RFI_FIX_N, m = RFI_FIX_M;

    for (int i = 0; i < RFI_N; ++i)
	yp[i] = ys[i];
    ASSUME(x == x);
    segment = hint;
    (void)_vnacal_rfi(xs, yp, n, m, &segment, x);
    REACH("rfi returned");
    CHECK(segment == hint || (segment >= 0 && segment <= n - 2),
	    "rfi: the hint written back is a valid segment");
}
#endif

#ifdef VERIF_NATIVE
int main(void)
{
    HARNESS();
    return 0;
}
#endif

/*
 * C01 link 2 (cell mapping of _vnacal_new_add_common, along real histories):
 * a two-port standard added with an ABBREVIATED 2x2 measurement matrix and a
 * port map (p1, p2) lands in the full VNA grid as documented:
 *   - the measurement matrix is given in increasing VNA-port order, so its
 *     rows/columns go to the SORTED ports;
 *   - the S parameters are given in the standard's own port order, so S_ab
 *     goes to row map[a], column map[b];
 *   - cells between a connected and an unconnected port are the zero
 *     parameter, no other cell is set.
 */
#include "wf_vnacal.h"

int vnaproperty_delete(vnaproperty_t **rootptr, const char *format, ...)
{
    (void)format;
    *rootptr = NULL;
    return 0;
}

#ifndef CAL_TYPE
#define CAL_TYPE VNACAL_T8
#endif
#ifndef P1
#define P1 3
#define P2 1
#endif
#define NP 3

void h_cell_map(void)
{
    IN_ARR(double, mv, 4);
    static double f[1] = { 1.0e9 };
    double complex c[4];
    double complex *m[4] = { &c[0], &c[1], &c[2], &c[3] };
    vnacal_t *vcp;
    vnacal_new_t *vnp;
    vnacal_new_measurement_t *vnmp;
    int s[4], lo = P1 < P2 ? P1 : P2, hi = P1 < P2 ? P2 : P1;
    int sorted[2], map[2] = { P1, P2 };

    sorted[0] = lo; sorted[1] = hi;
    for (int i = 0; i < 4; ++i)
	c[i] = mv[i];
    ghost_err_reset();
    vcp = vnacal_create(verif_error_fn, NULL);
    ASSUME(vcp != NULL);
    /* four distinguishable S parameters (handles 3..6) */
    s[0] = vnacal_make_scalar_parameter(vcp, 0.25);
    s[1] = vnacal_make_scalar_parameter(vcp, 0.5);
    s[2] = vnacal_make_scalar_parameter(vcp, 0.75);
    s[3] = vnacal_make_scalar_parameter(vcp, 0.125);
    ASSUME(s[0] == 3 && s[1] == 4 && s[2] == 5 && s[3] == 6);
    vnp = vnacal_new_alloc(vcp, CAL_TYPE, NP, NP, 1);
    ASSUME(vnp != NULL);
    ASSUME(vnacal_new_set_frequency_vector(vnp, f) == 0);
    ASSUME(vnacal_new_add_line_m(vnp, m, 2, 2, s, P1, P2) == 0);
    REACH("standard added");
    vnmp = vnp->vn_measurement_list;
    CHECK(vnmp != NULL && vnmp->vnm_next == NULL, "one standard recorded");
    for (int r = 0; r < NP; ++r) {
	for (int col = 0; col < NP; ++col) {
	    int cell = r * NP + col;
	    int mr = -1, mc = -1, sr = -1, sc = -1;

	    for (int k = 0; k < 2; ++k) {
		if (sorted[k] - 1 == r) mr = k;
		if (sorted[k] - 1 == col) mc = k;
		if (map[k] - 1 == r) sr = k;
		if (map[k] - 1 == col) sc = k;
	    }
	    if (mr >= 0 && mc >= 0) {
		CHECK(vnmp->vnm_m_matrix[cell] != NULL &&
			SAME_BITS(vnmp->vnm_m_matrix[cell][0], c[mr * 2 + mc]),
			"abbreviated M (increasing VNA-port order) lands on the sorted ports' rows and columns");
	    } else {
		CHECK(vnmp->vnm_m_matrix[cell] == NULL, "no other M cell is set");
	    }
	    if (sr >= 0 && sc >= 0) {
		CHECK(vnmp->vnm_s_matrix[cell] != NULL &&
			vnmp->vnm_s_matrix[cell]->vnpr_parameter->vpmr_index == s[sr * 2 + sc],
			"S_ab (standard's own port order) lands on row map[a], column map[b]");
	    } else if ((sr >= 0) != (sc >= 0)) {
		CHECK(vnmp->vnm_s_matrix[cell] == vnp->vn_zero,
			"S cells between a connected and an unconnected port are the zero parameter");
	    } else {
		CHECK(vnmp->vnm_s_matrix[cell] == NULL, "S cells between unconnected ports are unknown");
	    }
	}
    }
    vnacal_new_free(vnp);
    vnacal_free(vcp);
}

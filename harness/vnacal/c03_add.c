/*
 * C03 / C11 harness: vnacal_new_add_* called with valid, boundary and
 * invalid shapes on real vnacal_new_t objects (concrete scenario per run,
 * symbolic measured values): only owned memory is touched (incl. the VLAs of
 * _vnacal_new_add_common), invalid arguments are answered with -1 / EINVAL /
 * one report and add nothing, valid ones are accepted, and nothing leaks
 * after vnacal_new_free / vnacal_free.
 */
#include "wf_vnacal.h"

int vnaproperty_delete(vnaproperty_t **rootptr, const char *format, ...)
{
    (void)format;
    *rootptr = NULL;
    return 0;
}

#ifndef SCENARIO
#define SCENARIO 1
#endif

/* a calibration with zero frequencies is accepted by vnacal_new_alloc: its (empty) frequency vector must not be read */
void h_zero_frequencies(void)
{
    vnacal_t *vcp;
    vnacal_new_t *vnp;
    double *fv = malloc(0);
    int rc;

    ghost_err_reset();
    vcp = vnacal_create(verif_error_fn, NULL);
    ASSUME(vcp != NULL);
    vnp = vnacal_new_alloc(vcp, VNACAL_T8, 2, 2, 0);
    ASSUME(vnp != NULL);
    rc = vnacal_new_set_frequency_vector(vnp, fv);
    REACH("set_frequency_vector returned");
    CHECK(rc == 0 || rc == -1, "returns 0 or -1");
#ifdef ZERO_M_ERROR
    {	/* a noise model on its own two-point grid: the calibration's empty vector must not be read */
	double nfv[2] = { 1.0e9, 2.0e9 }, nf[2] = { 1.0e-3, 1.0e-3 };

	rc = vnacal_new_set_m_error(vnp, nfv, 2, nf, NULL);
	REACH("set_m_error on a calibration without frequencies returned");
	CHECK(rc == 0 || rc == -1, "returns 0 or -1");
    }
#endif
#ifdef ZERO_ADD
    {	/* a standard added AFTER the (empty) frequency vector was given: its range check must not read the vector */
	double complex *mvec = malloc(0);
	double complex *m[1] = { mvec };
	double pf[2] = { 1.0e9, 2.0e9 };
	double complex pg[2] = { -1.0, -1.0 };
	int p = vnacal_make_vector_parameter(vcp, pf, 2, pg);

	ASSUME(mvec != NULL && p >= 0);
	rc = vnacal_new_add_single_reflect_m(vnp, m, 1, 1, p, 1);
	REACH("add after an empty frequency vector returned");
	CHECK(rc == 0 || rc == -1, "returns 0 or -1");
	free(mvec);
	(void)vnacal_delete_parameter(vcp, p);
    }
#endif
    free(fv);
    vnacal_new_free(vnp);
    vnacal_free(vcp);
}

#ifdef EMPTY_CALIBRATION
/* a calibration with zero frequencies in the table: the queries and range bounds must not read its empty vector */
void h_empty_calibration(void)
{
    vnacal_t *vcp;
    vnacal_calibration_t *calp;
    double v;
    int ci;

    ghost_err_reset();
    vcp = vnacal_create(verif_error_fn, NULL);
    ASSUME(vcp != NULL);
    calp = _vnacal_calibration_alloc(vcp, VNACAL_T8, 1, 1, 0, 3);
    ASSUME(calp != NULL);
    ci = _vnacal_add_calibration_common("h", vcp, calp, "c");
    ASSUME(ci >= 0);
    CHECK(vnacal_get_frequencies(vcp, ci) == 0, "the calibration has no frequencies");
    v = vnacal_get_fmin(vcp, ci);
    REACH("fmin of an empty calibration returned");
    v = vnacal_get_fmax(vcp, ci);
    CHECK(ghost_err_calls == 0, "the vnacal_get_* functions do not invoke the error function (vnacal(3))");
    v = _vnacal_calibration_get_fmin_bound(calp);
    CHECK(v == HUGE_VAL || v != v || v > 1.0e300, "no finite frequency lies above the lower bound of an empty calibration");
    v = _vnacal_calibration_get_fmax_bound(calp);
    CHECK(v == -HUGE_VAL || v != v || v < -1.0e300, "nor below its upper bound");
    vnacal_free(vcp);
}
#endif

void h_add_scenario(void)
{
    IN_ARR(double, mv, 4);
    static double f[1] = { 1.0e9 };
    double complex c[4];
    double complex *m[4] = { &c[0], &c[1], &c[2], &c[3] };
    int s_full[4] = { VNACAL_MATCH, VNACAL_ONE, VNACAL_ONE, VNACAL_MATCH };
    int map12[2] = { 1, 2 };
    vnacal_t *vcp;
    vnacal_new_t *vnp;
    int rc = 0, expect_ok = 0, eq_before, std_before;
    vnacal_type_t type = VNACAL_T8;
    int rows = 2, cols = 2;

    for (int i = 0; i < 4; ++i)
	c[i] = mv[i];
#if SCENARIO == 1 || SCENARIO == 9
    type = VNACAL_U8; rows = 2; cols = 1;
#elif SCENARIO == 2
    type = VNACAL_T8; rows = 1; cols = 2;
#elif SCENARIO == 10
    type = VNACAL_UE14; rows = 2; cols = 1;
#elif SCENARIO == 13
    type = VNACAL_T8; rows = 1; cols = 2;
#elif SCENARIO == 14
    type = VNACAL_U8; rows = 2; cols = 1;
#elif SCENARIO == 17
    type = VNACAL_U8; rows = 3; cols = 2;
#elif SCENARIO == 18
    type = VNACAL_T8; rows = 2; cols = 3;
#elif SCENARIO == 19 || SCENARIO == 20
    type = VNACAL_T8; rows = 3; cols = 3;
#elif SCENARIO == 21
    type = VNACAL_UE14; rows = 3; cols = 3;
#elif SCENARIO == 22
    type = VNACAL_T16; rows = 1; cols = 2;
#elif SCENARIO == 23
    type = VNACAL_U16; rows = 2; cols = 1;
#endif
    ghost_err_reset();
    vcp = vnacal_create(verif_error_fn, NULL);
    ASSUME(vcp != NULL);
    vnp = vnacal_new_alloc(vcp, type, rows, cols, 1);
    ASSUME(vnp != NULL);
    ASSUME(vnacal_new_set_frequency_vector(vnp, f) == 0);
    eq_before = vnp->vn_equations;
    std_before = vnp->vn_measurement_count;
    (void)map12;
#if SCENARIO == 1		/* rectangular U, full S, no port map, m is 2x1 */
    rc = vnacal_new_add_mapped_matrix_m(vnp, m, 2, 1, s_full, 2, 2, NULL);
    expect_ok = 1;
#elif SCENARIO == 2		/* rectangular T, full S, no port map, m is 1x2 */
    rc = vnacal_new_add_mapped_matrix_m(vnp, m, 1, 2, s_full, 2, 2, NULL);
    expect_ok = 1;
#elif SCENARIO == 3		/* s_rows == 0 */
    rc = vnacal_new_add_mapped_matrix_m(vnp, m, 2, 2, s_full, 0, 2, map12);
#elif SCENARIO == 4		/* s_rows negative */
    rc = vnacal_new_add_mapped_matrix_m(vnp, m, 2, 2, s_full, -1, 2, map12);
#elif SCENARIO == 5		/* duplicate port */
    rc = vnacal_new_add_through_m(vnp, m, 2, 2, 1, 1);
#elif SCENARIO == 6		/* port 0 */
    rc = vnacal_new_add_through_m(vnp, m, 2, 2, 0, 1);
#elif SCENARIO == 7		/* port beyond the calibration */
    rc = vnacal_new_add_through_m(vnp, m, 2, 2, 1, 3);
#elif SCENARIO == 8		/* valid full 2x2 standard */
    rc = vnacal_new_add_mapped_matrix_m(vnp, m, 2, 2, s_full, 2, 2, NULL);
    expect_ok = 1;
#elif SCENARIO == 9		/* rectangular U with port map */
    rc = vnacal_new_add_mapped_matrix_m(vnp, m, 2, 1, s_full, 2, 2, map12);
    expect_ok = 1;
#elif SCENARIO == 10		/* UE14 2x1 double reflect */
    rc = vnacal_new_add_double_reflect_m(vnp, m, 2, 1, VNACAL_SHORT, VNACAL_OPEN, 1, 2);
    expect_ok = 1;
#elif SCENARIO == 11		/* wrong m dimensions */
    rc = vnacal_new_add_through_m(vnp, m, 3, 2, 1, 2);
#elif SCENARIO == 12		/* NULL m */
    rc = vnacal_new_add_through_m(vnp, NULL, 2, 2, 1, 2);
#elif SCENARIO == 13		/* 1x2 calibration, two-port standard given with MORE m rows (2) than the calibration has */
    rc = vnacal_new_add_line_m(vnp, m, 2, 2, s_full, 1, 2);
#elif SCENARIO == 14		/* 2x1 calibration, two-port standard given with MORE m columns (2) than the calibration has */
    rc = vnacal_new_add_through_m(vnp, m, 2, 2, 1, 2);
#elif SCENARIO == 17 || SCENARIO == 18	/* reflect with a 1x1 m on port 3 of a 3x2 (2x3) calibration: port 3 has no column (row) in M */
    rc = vnacal_new_add_single_reflect_m(vnp, m, 1, 1, VNACAL_SHORT, 3);
#elif SCENARIO == 19 || SCENARIO == 21	/* double reflect on ports (1,3) of a 3-port calibration, abbreviated 2x2 m: same standard as the mapped matrix {s11,0,0,s22} */
    rc = vnacal_new_add_double_reflect_m(vnp, m, 2, 2, VNACAL_SHORT, VNACAL_OPEN, 1, 3);
    expect_ok = 1;
#elif SCENARIO == 20		/* ... and on ports (3,2) */
    rc = vnacal_new_add_double_reflect_m(vnp, m, 2, 2, VNACAL_SHORT, VNACAL_OPEN, 3, 2);
    expect_ok = 1;
#elif SCENARIO == 22 || SCENARIO == 23	/* 1x2 T16 (2x1 U16), full 2x2 S without port map, m given as 2x2: more rows (columns) than the calibration has */
    rc = vnacal_new_add_mapped_matrix_m(vnp, m, 2, 2, s_full, 2, 2, NULL);
#elif SCENARIO == 15		/* T8 2x2, S given as 2x1 (second column unknown to the caller): accepted or refused, never a crash */
    rc = vnacal_new_add_mapped_matrix_m(vnp, m, 2, 2, s_full, 2, 1, map12);
    expect_ok = -1;
#elif SCENARIO == 16		/* the same with s 1x2 */
    rc = vnacal_new_add_mapped_matrix_m(vnp, m, 2, 2, s_full, 1, 2, map12);
    expect_ok = -1;
#endif
    REACH("add returned");
    if (expect_ok == -1)		/* either outcome is fine, each with its own obligations */
	expect_ok = (rc == 0);
    if (expect_ok) {
	CHECK(rc == 0 && ghost_err_calls == 0, "a valid standard is accepted silently");
	CHECK(vnp->vn_measurement_count == std_before + 1 && vnp->vn_equations > eq_before,
		"the accepted standard is recorded with its equations");
    } else {
	CHECK(rc == -1, "invalid arguments are answered with -1");
	CHECK(ghost_err_calls == 1 && ghost_err_category == VNAERR_USAGE && errno == EINVAL,
		"reported once as usage error (EINVAL)");
	CHECK(vnp->vn_measurement_count == std_before && vnp->vn_equations == eq_before,
		"a rejected standard adds nothing");
    }
    vnacal_new_free(vnp);
    vnacal_free(vcp);
}

#ifdef VERIF_NATIVE
int main(void) { HARNESS(); return 0; }
#endif

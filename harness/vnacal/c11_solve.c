/*
 * C11 (and C12's ownership clause) on _vnacal_new_solve_internal: a solve
 * that fails AFTER its argument checks leaves the vnacal_new_t as it was --
 * in particular the result of an earlier successful solve
 * (vnp->vn_calibration) is still the same, still allocated object -- and a
 * solve that succeeds installs exactly one new, well-shaped calibration and
 * releases the old one.  Either way the object can then be used and freed.
 *
 * Modular step: the real bodies of vnacal_new_solve,
 * _vnacal_new_solve_internal, _vnacal_new_solve_init/_start_frequency/_free,
 * convert_ue14_to_e12, _vnacal_calibration_alloc/_free and the whole
 * vnacal_new_add_* path run; the numeric solvers called per frequency are
 * replaced by the ASSUMED CONTRACTS below (they may fail at any frequency, or
 * succeed with any values in x_vector) -- so every failing exit of the
 * function is explored, whichever solver and whatever numeric reason.
 */
#include "wf_vnacal.h"

/* ASSUMED CONTRACT (property tree: C13) */
int vnaproperty_delete(vnaproperty_t **rootptr, const char *format, ...)
{
    (void)format;
    *rootptr = NULL;
    return 0;
}

static int ghost_solver_calls;

/*
 * ASSUMED CONTRACT of the three per-frequency solvers: either report one
 * error and return -1, or fill x_vector[0..x_length) and return 0; they
 * do not touch vn_calibration.
 */
static int solver_contract(vnacal_new_solve_state_t *vnssp,
	double complex *x_vector, int x_length)
{
    vnacal_new_t *vnp = vnssp->vnss_vnp;
    _Bool fail = nondet_bool();

    ++ghost_solver_calls;
    if (fail) {
	_vnacal_error(vnp->vn_vcp, VNAERR_MATH, "solver contract: failure");
	return -1;
    }
    for (int i = 0; i < x_length; ++i)
	x_vector[i] = nondet_double();
    return 0;
}

int _vnacal_new_solve_simple(vnacal_new_solve_state_t *vnssp,
	double complex *x_vector, int x_length)
{
    return solver_contract(vnssp, x_vector, x_length);
}

int _vnacal_new_solve_auto(vnacal_new_solve_state_t *vnssp,
	double complex *x_vector, int x_length)
{
    return solver_contract(vnssp, x_vector, x_length);
}

int _vnacal_new_solve_trl(vnacal_new_solve_state_t *vnssp,
	const vnacal_new_trl_indices_t *vntip,
	double complex *x_vector, int x_length)
{
    (void)vntip;
    return solver_contract(vnssp, x_vector, x_length);
}

#ifndef IS_TRL
#define IS_TRL 0
#endif
/* ASSUMED CONTRACT: pure classification of the standards (result fixed per run) */
bool _vnacal_new_solve_is_trl(const vnacal_new_t *vnp,
	vnacal_new_trl_indices_t *vntip)
{
    (void)vnp;
    if (IS_TRL) {
	(void)memset((void *)vntip, 0, sizeof(*vntip));
	return true;
    }
    return false;
}

/* ASSUMED CONTRACT: any p-value, no side effect */
double _vnacal_new_solve_calc_pvalue(vnacal_new_solve_state_t *vnssp,
       const double complex *x_vector, int x_length)
{
    (void)vnssp; (void)x_vector; (void)x_length;
    return nondet_double();
}

#ifndef CAL_TYPE
#define CAL_TYPE VNACAL_T8
#define CAL_ROWS 1
#define CAL_COLS 1
#endif
#ifndef PRIOR
#define PRIOR 1
#endif
#ifndef N_FREQ
#define N_FREQ 2
#endif

static _Bool calibration_shape_ok(const vnacal_calibration_t *calp,
	vnacal_type_t type, int terms)
{
    if (calp == NULL || calp->cal_type != type ||
	    calp->cal_rows != CAL_ROWS || calp->cal_columns != CAL_COLS ||
	    calp->cal_frequencies != N_FREQ ||
	    calp->cal_error_terms != terms ||
	    calp->cal_frequency_vector == NULL ||
	    calp->cal_error_term_vector == NULL)
	return 0;
    for (int t = 0; t < 24; ++t)
	if (t < terms) {
	    if (calp->cal_error_term_vector[t] == NULL)
		return 0;
	    /* reading every cell: a freed vector fails the pointer checks */
	    for (int f = 0; f < N_FREQ; ++f)
		(void)*(volatile double complex *)&calp->cal_error_term_vector[t][f];
	}
    for (int f = 0; f < N_FREQ; ++f)
	(void)*(volatile double *)&calp->cal_frequency_vector[f];
    return 1;
}

void h_solve_frame(void)
{
    IN(double, m11a);
    IN(double, m11b);
    IN(double, m11c);
    IN(double, prior_term);
    double f[N_FREQ];
    double complex v1[N_FREQ], v2[N_FREQ], v3[N_FREQ];
    double complex *m1[1] = { v1 }, *m2[1] = { v2 }, *m3[1] = { v3 };
    vnacal_t *vcp;
    vnacal_new_t *vnp;
    vnacal_calibration_t *prior = NULL;
    vnacal_type_t type_out;
    int terms_out, eq0, rc;
    int unknown = -1;

    for (int i = 0; i < N_FREQ; ++i) {
	f[i] = 1.0e9 * (i + 1);
	v1[i] = m11a; v2[i] = m11b; v3[i] = m11c;
    }
    ghost_err_reset();
    vcp = vnacal_create(verif_error_fn, NULL);
    ASSUME(vcp != NULL);
    vnp = vnacal_new_alloc(vcp, CAL_TYPE, CAL_ROWS, CAL_COLS, N_FREQ);
    ASSUME(vnp != NULL);
    ASSUME(vnacal_new_set_frequency_vector(vnp, f) == 0);
    ASSUME(vnacal_new_add_single_reflect_m(vnp, m1, 1, 1, VNACAL_SHORT, 1) == 0);
    ASSUME(vnacal_new_add_single_reflect_m(vnp, m2, 1, 1, VNACAL_OPEN, 1) == 0);
#ifdef WITH_UNKNOWN
    unknown = vnacal_make_unknown_parameter(vcp, VNACAL_MATCH);
    ASSUME(unknown >= 0);
    ASSUME(vnacal_new_add_single_reflect_m(vnp, m3, 1, 1, unknown, 1) == 0);
#ifdef PRIOR_POINTS
    {	/* the unknown was solved before, in a calibration with PRIOR_POINTS frequencies */
	vnacal_parameter_t *up = _vnacal_get_parameter(vcp, unknown);

	ASSUME(up != NULL);
	up->vpmr_frequencies = PRIOR_POINTS;
	up->vpmr_frequency_vector = malloc(PRIOR_POINTS * sizeof(double));
	up->vpmr_gamma_vector = malloc(PRIOR_POINTS * sizeof(double complex));
	ASSUME(up->vpmr_frequency_vector != NULL && up->vpmr_gamma_vector != NULL);
	for (int i = 0; i < PRIOR_POINTS; ++i) {
	    up->vpmr_frequency_vector[i] = 0.5e9 * (i + 1);
	    up->vpmr_gamma_vector[i] = 0.0;
	}
    }
#endif
#else
    ASSUME(vnacal_new_add_single_reflect_m(vnp, m3, 1, 1, VNACAL_MATCH, 1) == 0);
#endif
#ifdef WITH_M_ERROR
    {
	double nfv[1] = { 1.0e-3 };

	ASSUME(vnacal_new_set_m_error(vnp, NULL, 1, nfv, NULL) == 0);
	IN(double, plimit);
	ASSUME(plimit >= 0.0 && plimit < 1.0);
	ASSUME(vnacal_new_set_pvalue_limit(vnp, plimit) == 0);
    }
#endif
    type_out = (VL_TYPE(&vnp->vn_layout) == _VNACAL_E12_UE14) ? VNACAL_E12 : VL_TYPE(&vnp->vn_layout);
    {
	vnacal_layout_t vl;

	_vnacal_layout(&vl, type_out, CAL_ROWS, CAL_COLS);
	terms_out = VL_ERROR_TERMS(&vl);
    }
    ASSUME(terms_out <= 24);

    /* the result of an earlier successful solve, as that solve leaves it */
    if (PRIOR) {
	prior = _vnacal_calibration_alloc(vcp, type_out, CAL_ROWS, CAL_COLS,
		N_FREQ, terms_out);
	ASSUME(prior != NULL);
	for (int i = 0; i < N_FREQ; ++i)
	    prior->cal_frequency_vector[i] = f[i];
	prior->cal_error_term_vector[0][0] = prior_term;
	vnp->vn_calibration = prior;
    }
    eq0 = vnp->vn_equations;
    CHECK(ghost_err_calls == 0, "set-up is silent");

    rc = vnacal_new_solve(vnp);
    REACH("solve returned");
    CHECK(rc == 0 || rc == -1, "solve returns 0 or -1");
    CHECK(ghost_solver_calls >= 1 && ghost_solver_calls <= N_FREQ,
	    "one solver call per frequency until the first failure");
    CHECK(vnp->vn_equations == eq0 && vnp->vn_measurement_count == 3,
	    "solve never changes the accumulated standards");
    if (rc == -1) {
	REACH("solve failed after its argument checks");
	CHECK(ghost_err_calls == 1, "a failed solve is reported exactly once");
	CHECK(vnp->vn_calibration == prior,
		"a failed solve leaves the earlier result (or none) in place");
	if (PRIOR) {
	    CHECK(calibration_shape_ok(vnp->vn_calibration, type_out, terms_out),
		    "the earlier result is still allocated and well-shaped");
	    CHECK(SAME_BITS(vnp->vn_calibration->cal_error_term_vector[0][0], prior_term),
		    "the earlier result's error terms are untouched");
	}
    } else {
	REACH("solve succeeded");
	CHECK(ghost_err_calls == 0, "a successful solve is silent");
	CHECK(ghost_solver_calls == N_FREQ, "every frequency was solved");
	CHECK(vnp->vn_calibration != NULL,
		"a successful solve installs a calibration");
	CHECK(calibration_shape_ok(vnp->vn_calibration, type_out, terms_out),
		"the installed calibration has the solved type, dimensions and frequencies");
	for (int i = 0; i < N_FREQ; ++i)
	    CHECK(vnp->vn_calibration->cal_frequency_vector[i] == f[i],
		    "the installed calibration carries the calibration frequencies");
#if defined(WITH_UNKNOWN)
	{
	    vnacal_parameter_t *up = _vnacal_get_parameter(vcp, unknown);

	    CHECK(up != NULL && up->vpmr_frequencies == N_FREQ && up->vpmr_frequency_vector != NULL &&
		    up->vpmr_gamma_vector != NULL,
		    "a solved unknown parameter holds one value per frequency of THIS solve");
	    if (up != NULL && up->vpmr_frequencies == N_FREQ && up->vpmr_frequency_vector != NULL &&
		    up->vpmr_gamma_vector != NULL)
		for (int i = 0; i < N_FREQ; ++i) {
		    CHECK(up->vpmr_frequency_vector[i] == f[i], "on this solve's frequencies");
		    (void)*(volatile double complex *)&up->vpmr_gamma_vector[i];
		}
	}
#endif
    }

    /* the object stays usable: a retry runs against the same contracts */
#ifndef NO_RETRY
    rc = vnacal_new_solve(vnp);
#endif
    CHECK(rc == 0 || rc == -1, "retry returns 0 or -1");
    if (vnp->vn_calibration != NULL)
	CHECK(calibration_shape_ok(vnp->vn_calibration, type_out, terms_out),
		"after a retry the held result is still a live, well-shaped calibration");
    vnacal_new_free(vnp);
    if (unknown >= 0)
	(void)vnacal_delete_parameter(vcp, unknown);
    vnacal_free(vcp);
    /* --memory-leak-check: neither result is leaked or freed twice */
}

#ifdef VERIF_NATIVE
int main(void) { HARNESS(); return 0; }
#endif

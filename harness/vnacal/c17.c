/*
 * C17 harness (entry-level clause): "a through equals the line (0,1;1,0)
 * equals the corresponding mapped matrix".  All vnacal_new_add_* entry
 * points funnel into _vnacal_new_add_common; its body is removed from the
 * compiled translation unit (goto-instrument --remove-function-body) and
 * replaced here by a recording contract, so that what each entry point HANDS
 * to the funnel can be compared field by field, including the pointed-to S
 * parameter matrix and port map.  Loop-free, full domain: a complete proof.
 */
#include "mk_min.h"

typedef struct rec {
    vnacal_new_t *cmp;
    const void *a; int a_rows, a_columns;
    const void *b; int b_rows, b_columns;
    int s_rows, s_columns, s[4], map[2];
    _Bool m_diag, s_diag, have_map;
    char m_type;
} rec_t;
static rec_t rec[3];
static int nrec;

int _vnacal_new_add_common(vnacal_new_add_arguments_t vnaa)
{
    rec_t *r = &rec[nrec < 3 ? nrec : 2];

    r->cmp = vnaa.vnaa_cmp;
    r->a = (const void *)vnaa.vnaa_a_matrix;
    r->a_rows = vnaa.vnaa_a_rows; r->a_columns = vnaa.vnaa_a_columns;
    r->b = (const void *)vnaa.vnaa_b_matrix;
    r->b_rows = vnaa.vnaa_b_rows; r->b_columns = vnaa.vnaa_b_columns;
    r->s_rows = vnaa.vnaa_s_rows; r->s_columns = vnaa.vnaa_s_columns;
    r->m_diag = vnaa.vnaa_m_is_diagonal; r->s_diag = vnaa.vnaa_s_is_diagonal;
    r->m_type = vnaa.vnaa_m_type;
    CHECK(vnaa.vnaa_s_matrix != NULL, "funnel receives an S parameter matrix");
    for (int i = 0; i < 4; ++i)
	r->s[i] = (vnaa.vnaa_s_rows == 2 && vnaa.vnaa_s_columns == 2) ?
	    vnaa.vnaa_s_matrix[i] : -99;
    r->have_map = vnaa.vnaa_s_port_map != NULL;
    r->map[0] = r->have_map ? vnaa.vnaa_s_port_map[0] : -99;
    r->map[1] = r->have_map ? vnaa.vnaa_s_port_map[1] : -99;
    ++nrec;
    return 0;
}

static _Bool rec_same(const rec_t *x, const rec_t *y)
{
    return x->cmp == y->cmp && x->a == y->a && x->a_rows == y->a_rows &&
	x->a_columns == y->a_columns && x->b == y->b &&
	x->b_rows == y->b_rows && x->b_columns == y->b_columns &&
	x->s_rows == y->s_rows && x->s_columns == y->s_columns &&
	x->s[0] == y->s[0] && x->s[1] == y->s[1] && x->s[2] == y->s[2] &&
	x->s[3] == y->s[3] && x->map[0] == y->map[0] && x->map[1] == y->map[1] &&
	x->m_diag == y->m_diag && x->s_diag == y->s_diag &&
	x->have_map == y->have_map && x->m_type == y->m_type;
}

void h_through_line_mapped(void)
{
    IN(int, a_rows); IN(int, a_columns); IN(int, b_rows); IN(int, b_columns);
    IN(int, p1); IN(int, p2);
    IN(bool, m_form);
    double complex *am[1], *bm[1];		/* only their identity matters */
    double cfv[2] = { 1.0e9, 2.0e9 };
    vnacal_t *vcp = mk_vcp_min(1);
    vnacal_new_t *vnp = mk_vnp_min(vcp, VNACAL_T8, 2, 2, 2, cfv);
    int line_s[4] = { VNACAL_ZERO, VNACAL_ONE, VNACAL_ONE, VNACAL_ZERO };
    int map[2];
    int r0, r1, r2;

    map[0] = p1; map[1] = p2;
    nrec = 0;
    if (m_form) {
	r0 = vnacal_new_add_through_m(vnp, bm, b_rows, b_columns, p1, p2);
	r1 = vnacal_new_add_line_m(vnp, bm, b_rows, b_columns, line_s, p1, p2);
	r2 = vnacal_new_add_mapped_matrix_m(vnp, bm, b_rows, b_columns,
		line_s, 2, 2, map);
    } else {
	r0 = vnacal_new_add_through(vnp, am, a_rows, a_columns,
		bm, b_rows, b_columns, p1, p2);
	r1 = vnacal_new_add_line(vnp, am, a_rows, a_columns,
		bm, b_rows, b_columns, line_s, p1, p2);
	r2 = vnacal_new_add_mapped_matrix(vnp, am, a_rows, a_columns,
		bm, b_rows, b_columns, line_s, 2, 2, map);
    }
    REACH("three entry points returned");
    CHECK(nrec == 3 && r0 == 0 && r1 == 0 && r2 == 0,
	    "each entry point calls the funnel exactly once");
    CHECK(rec[0].s[0] == VNACAL_ZERO && rec[0].s[1] == VNACAL_ONE &&
	    rec[0].s[2] == VNACAL_ONE && rec[0].s[3] == VNACAL_ZERO &&
	    rec[0].map[0] == p1 && rec[0].map[1] == p2,
	    "a through is described as S = (0,1;1,0) on ports (p1,p2)");
    CHECK(rec[0].m_type == (m_form ? 'm' : 'a') &&
	    (m_form ? rec[0].a == NULL : rec[0].a == (const void *)am) &&
	    rec[0].b == (const void *)bm && rec[0].b_rows == b_rows &&
	    rec[0].b_columns == b_columns,
	    "the measurement matrices are passed through unchanged");
    CHECK(rec_same(&rec[0], &rec[1]),
	    "through == line(0,1;1,0): identical description handed to the funnel");
    CHECK(rec_same(&rec[1], &rec[2]),
	    "line == mapped matrix with that S and port map: identical description");
    free(vnp); free(vcp);
}

#ifdef VERIF_NATIVE
int main(void) { HARNESS(); return 0; }
#endif

/*
 * C01 link 4 (ring substitution): the matrices A and B that vnacal_apply
 * hands to the linear solver are, cell by cell, the documented forms
 *     T types:  A = Ts - M' Tx,   B = M' Tm - Ti      (S = A^-1 B)
 *     U types:  A = Ux M' + Us,   B = Um M' + Ui      (S = B A^-1)
 *     UE14:     the U form column by column with per-column terms
 * with M' = M minus the outside leakage terms (off-diagonal, row-major),
 * for the diagonal (T8/TE10) and full (T16) layouts.
 *
 * The function text is EXTRACTED from /repo/src/vnacal_apply.c on every run
 * (gen/extract_fn.py: from the `static void fill_*(` line to the first `}`
 * line; SHA-256 recorded) and compiled here with `double complex` replaced
 * by the ring Z/256 (unsigned char).  Dropped: IEEE rounding, overflow,
 * NaN.  Kept: every index expression, loop bound, offset macro, sign and
 * operand choice of the real source.
 */
#include "archdep.h"
#include <assert.h>
#include <string.h>
#include "verif.h"
#include <vnacal.h>
#include <vnacal_layout.h>
extern void _vnacal_layout(vnacal_layout_t *vlp, vnacal_type_t type, int m_rows, int m_columns);

typedef unsigned char verif_ring_t;
#define double verif_ring_t
#define complex
#include FILL_INC
#undef double
#undef complex

#ifndef N
#define N 2
#endif
#ifndef FILL_FORM
#define FILL_FORM 0
#endif
#define ETERMS_MAX (4 * N * N + N * N)

void h_fill_t(void)
{
    IN_ARR(uchar, e, ETERMS_MAX);
    IN_ARR(uchar, m_in, N * N);
    verif_ring_t m[N * N], a[N * N], b[N * N];
    vnacal_layout_t vl;

    _vnacal_layout(&vl, FILL_TYPE, N, N);
    ASSUME(VL_ERROR_TERMS(&vl) <= ETERMS_MAX);
    for (int i = 0; i < N * N; ++i)
	m[i] = m_in[i];
    FILL_FN(&vl, e, m, a, b);
    REACH("fill returned");
    for (int g_r = 0; g_r < N; ++g_r)
    for (int g_c = 0; g_c < N; ++g_c) {		/* every cell, concretely */
	int el_index = 0;

	/* M' cell: off-diagonal cells have the k-th leakage term subtracted (row-major count) */
	verif_ring_t mp = m_in[g_r * N + g_c];
	verif_ring_t ts, ti, tx, tm, ea, eb;

	if (VL_HAS_OUTSIDE_LEAKAGE_TERMS(&vl) && g_r != g_c) {
	    for (int r = 0; r < N; ++r)
		for (int c = 0; c < N; ++c)
		    if (r != c && (r < g_r || (r == g_r && c < g_c)))
			++el_index;
	    mp = (verif_ring_t)(mp - e[VL_EL_OFFSET(&vl) + el_index]);
	}
	CHECK(m[g_r * N + g_c] == mp, "M has the outside leakage term of exactly that cell subtracted");
#if FILL_FORM == 2
	/* U8/UE10 (diagonal sub-matrices): A = Ux M' + Us, B = Um M' + Ui  (S = B A^-1) */
	ea = (verif_ring_t)(mp * e[VL_UX_OFFSET(&vl) + g_r] + (g_r == g_c ? e[VL_US_OFFSET(&vl) + g_r] : 0));
	eb = (verif_ring_t)(mp * e[VL_UM_OFFSET(&vl) + g_r] + (g_r == g_c ? e[VL_UI_OFFSET(&vl) + g_r] : 0));
	(void)ts; (void)ti; (void)tx; (void)tm;
#elif FILL_FORM == 3
	/* U16 (full sub-matrices): A = Ux M + Us (Ux: s_columns x m_rows), B = Um M + Ui */
	ea = e[VL_US_OFFSET(&vl) + g_r * N + g_c];
	eb = e[VL_UI_OFFSET(&vl) + g_r * N + g_c];
	for (int k = 0; k < N; ++k) {
	    verif_ring_t mk = m[k * N + g_c];
	    ea = (verif_ring_t)(ea + e[VL_UX_OFFSET(&vl) + g_r * N + k] * mk);
	    eb = (verif_ring_t)(eb + e[VL_UM_OFFSET(&vl) + g_r * N + k] * mk);
	}
	(void)ts; (void)ti; (void)tx; (void)tm;
#elif FILL_FORM == 4
	/* UE14: column g_c is its own system with its own terms: A(:,c) = c_Ux M'(:,c) + c_us11 e_c, B(:,c) = c_Um M'(:,c) + c_ui11 e_c */
	ea = (verif_ring_t)(mp * e[VL_UX14_OFFSET(&vl, g_c) + g_r] + (g_r == g_c ? e[VL_US14_OFFSET(&vl, g_c)] : 0));
	eb = (verif_ring_t)(mp * e[VL_UM14_OFFSET(&vl, g_c) + g_r] + (g_r == g_c ? e[VL_UI14_OFFSET(&vl, g_c)] : 0));
	(void)ts; (void)ti; (void)tx; (void)tm;
#elif FILL_FULL
	/* T16: A = Ts - M' Tx (Ts: m_rows x s_rows, Tx: m_columns x s_rows); B = M' Tm - Ti */
	ea = e[VL_TS_OFFSET(&vl) + g_r * N + g_c];
	eb = (verif_ring_t)(0 - e[VL_TI_OFFSET(&vl) + g_r * N + g_c]);
	for (int k = 0; k < N; ++k) {
	    verif_ring_t mk = m[g_r * N + k];
	    ea = (verif_ring_t)(ea - mk * e[VL_TX_OFFSET(&vl) + k * N + g_c]);
	    eb = (verif_ring_t)(eb + mk * e[VL_TM_OFFSET(&vl) + k * N + g_c]);
	}
	(void)ts; (void)ti; (void)tx; (void)tm;
#else
	/* T8/TE10: diagonal sub-matrices */
	ts = e[VL_TS_OFFSET(&vl) + g_r];
	ti = e[VL_TI_OFFSET(&vl) + g_r];
	tx = e[VL_TX_OFFSET(&vl) + g_c];
	tm = e[VL_TM_OFFSET(&vl) + g_c];
	ea = (verif_ring_t)((g_r == g_c ? ts : 0) - mp * tx);
	eb = (verif_ring_t)(mp * tm - (g_r == g_c ? ti : 0));
#endif
	CHECK(a[g_r * N + g_c] == ea, "A cell equals the documented form (T: Ts - M Tx; U: Ux M + Us)");
	CHECK(b[g_r * N + g_c] == eb, "B cell equals the documented form (T: M Tm - Ti; U: Um M + Ui)");
    }
}

/*
 * C01 / C17 foundation: the per-calibration parameter collection
 * (vnacal_new_parameter.c: hash_expand, hash_lookup, hash_insert,
 * _vnacal_new_get_parameter) is a MAP from parameter handle to exactly one
 * node.  build_connectivity_matrix and build_terms_* recognise "this cell is
 * known to be zero" by node identity with vnp->vn_zero, so the documented
 * M/S relation (leakage terms, which equations are generated) depends on
 * every handle -- VNACAL_ZERO above all -- resolving to the same node every
 * time, also after the table has grown.
 *
 * Contract: representation invariant wf_hash (every node sits in bucket
 * handle % allocation, chains strictly ascending, count == number of nodes)
 * holds after every operation, and get(h) == the node first returned for h.
 */
#include "wf_vnacal.h"

int vnaproperty_delete(vnaproperty_t **rootptr, const char *format, ...)
{
    (void)format;
    *rootptr = NULL;
    return 0;
}

#define MAX_NODES 24
static _Bool wf_hash(const vnacal_new_parameter_hash_t *h)
{
    int n = 0;

    if (h->vnph_table == NULL || h->vnph_allocation < 8 ||
	    h->vnph_allocation > 32)
	return 0;
    for (int b = 0; b < 32; ++b) {
	if (b < h->vnph_allocation) {
	    const vnacal_new_parameter_t *p = h->vnph_table[b];
	    int last = -1;

	    for (int k = 0; k < MAX_NODES; ++k) {
		if (p != NULL) {
		    int ix = p->vnpr_parameter->vpmr_index;

		    if (ix % h->vnph_allocation != b || ix <= last)
			return 0;
		    last = ix;
		    ++n;
		    p = p->vnpr_hash_next;
		}
	    }
	    if (p != NULL)
		return 0;
	}
    }
    return n == h->vnph_count;
}

#ifndef HASH_SEQ
#define HASH_SEQ 16, 3, 4, 5, 6, 7, 8, 9
#endif
static const int seq[] = { HASH_SEQ };
#define NSEQ ((int)(sizeof(seq) / sizeof(seq[0])))
#ifndef N_USER
#define N_USER 14		/* user parameters 3..16 */
#endif
#define PRM_SLOTS 20

void h_param_hash(void)
{
    IN(double, gamma);
    vnacal_t *vcp;
    vnacal_new_t *vnp;
    vnacal_new_parameter_t *node[NSEQ], *zero;
    int handle[N_USER];

    ghost_err_reset();
    vcp = vnacal_create(verif_error_fn, NULL);
    ASSUME(vcp != NULL);
    /*
     * user scalar parameters 3..16, laid down directly in the form
     * _vnacal_alloc_parameter leaves them (C16 covers that function): 14
     * real vnacal_make_scalar_parameter calls cost symex a table search each.
     */
    {
	vnacal_parameter_collection_t *c = &vcp->vc_parameter_collection;
	vnacal_parameter_t **vec = malloc(PRM_SLOTS * sizeof(vnacal_parameter_t *));

	ASSUME(vec != NULL);
	ASSUME(c->vprmc_count == 3 && c->vprmc_allocation >= 3);
	for (int i = 0; i < PRM_SLOTS; ++i) {
	    if (i < 3) {
		vec[i] = c->vprmc_vector[i];
	    } else if (i < 3 + N_USER) {
		vnacal_parameter_t *p = malloc(sizeof(*p));

		ASSUME(p != NULL);
		(void)memset((void *)p, 0, sizeof(*p));
		p->vpmr_type = VNACAL_SCALAR;
		p->vpmr_index = i;
		p->vpmr_hold_count = 1;
		p->vpmr_vcp = vcp;
		p->vpmr_gamma = gamma;
		vec[i] = p;
		handle[i - 3] = i;
	    } else {
		vec[i] = NULL;
	    }
	}
	free((void *)c->vprmc_vector);
	c->vprmc_vector = vec;
	c->vprmc_allocation = PRM_SLOTS;
	c->vprmc_count = 3 + N_USER;
	c->vprmc_first_free = 3 + N_USER;
    }
    vnp = vnacal_new_alloc(vcp, VNACAL_TE10, 2, 2, 1);
    ASSUME(vnp != NULL);
    zero = vnp->vn_zero;
    CHECK(zero != NULL && zero->vnpr_parameter->vpmr_index == VNACAL_ZERO,
	    "a new calibration holds the node of the zero parameter");
    CHECK(wf_hash(&vnp->vn_parameter_hash) && vnp->vn_parameter_hash.vnph_count == 1,
	    "the new collection is well-formed and holds only the zero parameter");

    for (int i = 0; i < NSEQ; ++i) {
	node[i] = _vnacal_new_get_parameter("h_param_hash", vnp, seq[i]);
	CHECK(node[i] != NULL && node[i]->vnpr_parameter->vpmr_index == seq[i],
		"get_parameter returns a node for the requested handle");
	CHECK(wf_hash(&vnp->vn_parameter_hash),
		"the collection is well-formed after every insertion (also after it grew)");
    }
    REACH("all handles inserted");
    CHECK(vnp->vn_parameter_hash.vnph_allocation == (NSEQ + 1 >= 8 ? 16 : 8),
	    "the table grew exactly when it became full");
    CHECK(vnp->vn_parameter_hash.vnph_count == NSEQ + 1,
	    "one node per distinct handle");

    /* every handle resolves to the SAME node again */
    CHECK(_vnacal_new_get_parameter("h_param_hash", vnp, VNACAL_ZERO) == zero,
	    "VNACAL_ZERO still resolves to vn_zero (node identity marks known-zero cells)");
    CHECK(_vnacal_new_get_parameter("h_param_hash", vnp, VNACAL_MATCH) == zero,
	    "VNACAL_MATCH is the same parameter as VNACAL_ZERO");
    for (int i = 0; i < NSEQ; ++i)
	CHECK(_vnacal_new_get_parameter("h_param_hash", vnp, seq[i]) == node[i],
		"a handle resolves to the node created for it (no duplicate)");
    CHECK(vnp->vn_parameter_hash.vnph_count == NSEQ + 1 && wf_hash(&vnp->vn_parameter_hash),
	    "look-ups add nothing");
    CHECK(ghost_err_calls == 0, "all of this is silent");
    vnacal_new_free(vnp);
    (void)handle;
    vnacal_free(vcp);
    /* --memory-leak-check */
}

/*
 * Deleted handles (C16 / C11): a handle the user has deleted is refused by
 * the vnacal_new_add_* functions even when this vnacal_new_t still uses (and
 * holds) the parameter; the uses already recorded stay valid; and a
 * correlated parameter keeps working after the handle of its initial guess
 * was deleted (the guess is held by its referrer).
 */
void h_deleted_handle(void)
{
    IN(double, gamma);
    double sigma[1] = { 0.1 };
    vnacal_t *vcp;
    vnacal_new_t *vnp;
    vnacal_new_parameter_t *n_p, *n_c, *again;
    int p, g, c;

    ASSUME(gamma == 0.5); gamma = 0.5;	/* symbolic gamma: make_scalar branches on 0 / 1 / -1 (heap shapes merge) */
    ghost_err_reset();
    vcp = vnacal_create(verif_error_fn, NULL);
    ASSUME(vcp != NULL);
    p = vnacal_make_scalar_parameter(vcp, gamma);
    g = vnacal_make_scalar_parameter(vcp, 0.25);
    c = vnacal_make_correlated_parameter(vcp, g, NULL, 1, sigma);
    ASSUME(p == 3 && g == 4 && c == 5);
    vnp = vnacal_new_alloc(vcp, VNACAL_T8, 2, 2, 1);
    ASSUME(vnp != NULL);
    n_p = _vnacal_new_get_parameter("h_deleted_handle", vnp, p);
    CHECK(n_p != NULL && ghost_err_calls == 0, "a live handle is accepted");

    CHECK(vnacal_delete_parameter(vcp, p) == 0 && ghost_err_calls == 0,
	    "deleting a handle that a calibration in progress uses succeeds");
    again = _vnacal_new_get_parameter("h_deleted_handle", vnp, p);
    REACH("deleted handle looked up again");
    CHECK(again == NULL && ghost_err_calls == 1 && ghost_err_category == VNAERR_USAGE && errno == EINVAL,
	    "the deleted handle is refused from then on, also by the calibration that still uses the parameter");
    CHECK(n_p->vnpr_parameter != NULL && n_p->vnpr_parameter->vpmr_index == p &&
	    n_p->vnpr_parameter->vpmr_gamma == gamma, "the use recorded before the deletion stays valid");

    ghost_err_reset();
    CHECK(vnacal_delete_parameter(vcp, g) == 0 && ghost_err_calls == 0,
	    "the handle of a correlated parameter's initial guess can be deleted");
    n_c = _vnacal_new_get_parameter("h_deleted_handle", vnp, c);
    REACH("correlated parameter with a deleted guess handle looked up");
    CHECK(n_c != NULL && ghost_err_calls == 0,
	    "the correlated parameter stays usable: its guess is held by the referrer");
    if (n_c != NULL)
	CHECK(n_c->vnpr_correlate != NULL && n_c->vnpr_correlate->vnpr_parameter->vpmr_index == g,
		"and its correlate is the (deleted, still held) guess");
    vnacal_new_free(vnp);
    (void)vnacal_delete_parameter(vcp, c);
    vnacal_free(vcp);
    /* --memory-leak-check: the deleted parameters go with their last holder */
}

#ifdef VERIF_NATIVE
int main(void) { HARNESS(); return 0; }
#endif

/* DFCC entry for the _vnacal_layout contract (contracts/c01_layout.h) */
#include "verif.h"
#include "c01_layout.h"
void h_layout(void)
{
    vnacal_layout_t *vlp;
    vnacal_type_t type;
    int m_rows, m_columns;

    _vnacal_layout(vlp, type, m_rows, m_columns);
}

/*
 * C11: the real _vnaerr_verror against the contract every other harness
 * assumes for it (stubs/verif_err.c): errno by category, user callback called
 * exactly once iff it is non-NULL (also when vasprintf fails), never twice.
 */
#include <errno.h>
#include <stdarg.h>
#include <stdlib.h>
#include <string.h>
#include "verif.h"
#include <vnaerr.h>
#include <vnaerr_internal.h>

static int cb_calls, cb_category;
static const char *cb_message;
static int cb_errno;
static void callback(const char *message, void *arg, vnaerr_category_t category)
{
    (void)arg;
    ++cb_calls;
    cb_category = (int)category;
    cb_message = message;
    cb_errno = errno;
}

#ifdef VERIF_CBMC
/* ASSUMED CONTRACT for vasprintf: fails with -1, or yields a fresh string */
static _Bool vasprintf_fails;
int vasprintf(char **strp, const char *fmt, va_list ap)
{
    (void)fmt; (void)ap;
    if (vasprintf_fails) {
	errno = ENOMEM;
	return -1;
    }
    *strp = malloc(2);
    __CPROVER_assume(*strp != NULL);
    (*strp)[0] = 'm'; (*strp)[1] = 0;
    return 1;
}
#endif

static void call(vnaerr_error_fn_t *fn, vnaerr_category_t category,
	const char *format, ...)
{
    va_list ap;

    va_start(ap, format);
    _vnaerr_verror(fn, NULL, category, format, ap);
    va_end(ap);
}

void h_verror(void)
{
    IN(int, category);
    IN(int, entry_errno);
    IN(bool, with_fn);
    IN(bool, asprintf_fails);
    int expect;

#ifdef VERIF_CBMC
    vasprintf_fails = asprintf_fails;
#endif
    cb_calls = 0;
    errno = entry_errno;
    call(with_fn ? callback : NULL, (vnaerr_category_t)category, "x");
    REACH("verror returned");
    switch (category) {
    case VNAERR_SYSTEM:		expect = entry_errno;	break;
    case VNAERR_USAGE:		expect = EINVAL;	break;
    case VNAERR_VERSION:	expect = ENOPROTOOPT;	break;
    case VNAERR_SYNTAX:		expect = EBADMSG;	break;
    case VNAERR_WARNING:	expect = 0;		break;
    case VNAERR_MATH:		expect = EDOM;		break;
    default:			expect = ENOSYS;	break;
    }
    CHECK(errno == expect,
	    "errno after the report is the documented class for the category");
    CHECK(cb_calls == (with_fn ? 1 : 0),
	    "the user's error function is called exactly once iff it is set, "
	    "also when formatting the message fails");
    if (with_fn) {
	REACH("callback invoked");
	CHECK(cb_category == category && cb_message != NULL,
		"the callback receives the category and a message");
	CHECK(cb_errno == expect, "errno is already set when the callback runs");
    }
}

#ifdef VERIF_NATIVE
int main(void) { HARNESS(); return 0; }
#endif

/*
 * C12 harnesses: scripted histories run once per allocation index k
 * (VERIF_FAIL_AT=k, concrete); allocation number k made by library code
 * returns NULL/ENOMEM once.  Per run: no memory-safety violation, the
 * failing call returns its documented failure value with errno ENOMEM and
 * one SYSTEM error report, the object stays well formed, repeating the
 * call succeeds and the history ends in the same state as the fault-free
 * run, and after the free functions nothing remains allocated.
 */
/* the harness' own allocations are not library allocations: undo the -Dmalloc=... renaming here */
#undef malloc
#undef calloc
#undef realloc
#undef strdup
#ifdef S_VNADATA
#include "vnadata/wf_vnadata.h"
#else
#include "vnacal/wf_vnacal.h"
#endif

extern int verif_alloc_count, verif_alloc_failed;

/* the failed call: documented value, ENOMEM, reported once as SYSTEM error */
#define FAILED_CLEANLY(what) \
    do { \
	CHECK(verif_alloc_failed, what ": a call may only fail because of the injected fault"); \
	CHECK(errno == ENOMEM, what ": errno is ENOMEM"); \
	CHECK(ghost_err_calls <= calls_before + 1 && \
		(ghost_err_calls == calls_before || ghost_err_category == VNAERR_SYSTEM), \
		what ": reported at most once, as a system error"); \
    } while (0)

/* run `call` (an int expression returning 0 / -1); on failure check and retry once */
#define STEP_INT(what, call, wfcheck) \
    do { \
	int calls_before = ghost_err_calls; \
	int rc_ = (call); \
	if (rc_ == -1) { \
	    FAILED_CLEANLY(what); \
	    CHECK(wfcheck, what ": object well formed after the failed call"); \
	    calls_before = ghost_err_calls; \
	    rc_ = (call); \
	    CHECK(rc_ != -1, what ": repeating the call without the fault succeeds"); \
	    CHECK(ghost_err_calls == calls_before, what ": the repeated call is silent"); \
	} \
	CHECK(wfcheck, what ": object well formed"); \
    } while (0)

#ifdef S_VNADATA
void h_script_vnadata(void)
{
    IN(double, z);
    IN(double, v);
    vnadata_t *vdp;
    vnadata_internal_t *vdip;
    int calls_before;

    ghost_err_reset();
    calls_before = 0;
    vdp = vnadata_alloc(verif_error_fn, NULL);
    if (vdp == NULL) {
	CHECK(verif_alloc_failed && errno == ENOMEM, "alloc: NULL only under the fault, ENOMEM");
	CHECK(ghost_err_fn_calls == 1, "alloc: failure reported once through the callback");
	vdp = vnadata_alloc(verif_error_fn, NULL);
	CHECK(vdp != NULL, "alloc: repeating succeeds");
	ghost_err_reset();
    }
    vdip = VDP_TO_VDIP(vdp);
    STEP_INT("init", vnadata_init(vdp, VPT_S, 2, 2, 2), wf_vnadata(vdip));
    STEP_INT("set_cell", vnadata_set_cell(vdp, 1, 1, 0, (cell_t)v), wf_vnadata(vdip));
    STEP_INT("set_z0", vnadata_set_z0(vdp, 1, (cell_t)z), wf_vnadata(vdip));
    STEP_INT("set_fz0", vnadata_set_fz0(vdp, 0, 0, (cell_t)z), wf_vnadata(vdip));
    STEP_INT("resize grow", vnadata_resize(vdp, VPT_S, 3, 3, 3), wf_vnadata(vdip));
#ifdef S_ADD_FREQUENCY
    STEP_INT("add_frequency", vnadata_add_frequency(vdp, 5.0), wf_vnadata(vdip));
#endif
    STEP_INT("set_all_z0", vnadata_set_all_z0(vdp, (cell_t)z), wf_vnadata(vdip));
#ifndef S_ADD_FREQUENCY
    /*
     * back to per-frequency z0, then init: a successful init leaves ordinary z0 (it allocates on the way back).
     * Not in the add_frequency variant: with its 51-slot frequency allocation the switch back to per-frequency
     * z0 makes 52 more allocations and every one of the then 168 runs takes about 1000 s (thorough run 5: 126
     * min for C12); the three steps are decided here, in the small variant.
     */
    STEP_INT("set_fz0 again", vnadata_set_fz0(vdp, 0, 0, (cell_t)z), wf_vnadata(vdip));
    STEP_INT("init from fz0 mode", vnadata_init(vdp, VPT_S, 3, 3, 3), wf_vnadata(vdip));
    CHECK(!vnadata_has_fz0(vdp), "init: a successful init leaves ordinary z0 mode");
    STEP_INT("set_all_z0 after init", vnadata_set_all_z0(vdp, (cell_t)z), wf_vnadata(vdip));
#endif
#ifdef S_FORMAT
    /* the default format installed by vnadata_save / vnadata_load when none was set: vector, then its string */
    STEP_INT("set_simple_format", _vnadata_set_simple_format(vdip, VPT_S, VNADATA_FORMAT_REAL_IMAG), wf_vnadata(vdip));
    CHECK(vdip->vdi_format_count == 1 && vdip->vdi_format_vector != NULL && vdip->vdi_format_string != NULL,
	    "set_simple_format: one descriptor and its string are installed");
#endif
    STEP_INT("resize shrink", vnadata_resize(vdp, VPT_UNDEF, 1, 2, 1), wf_vnadata(vdip));
    REACH("script finished");
#if VERIF_FAIL_AT > 0
    CHECK(verif_alloc_failed, "infra: the injected fault was never reached (vacuous run)");
#endif
    /* same final state as the fault-free run */
    CHECK(vdp->vd_rows == 1 && vdp->vd_columns == 2 && vdp->vd_frequencies == 1 &&
	    vdp->vd_type == VPT_UNDEF && !vnadata_has_fz0(vdp),
	    "final shape equals that of the fault-free history");
    {
	cell_t c = vnadata_get_cell(vdp, 0, 0, 1), zz = vnadata_get_z0(vdp, 1);
	cell_t ez = z, e0 = 0.0;
	CHECK(SAME_BITS(zz, ez) && SAME_BITS(c, e0),
		"final contents equal those of the fault-free history");
    }
#if VERIF_FAIL_AT == 0 && !defined(VERIF_NATIVE)
    CHECK(verif_alloc_count == EXPECT_K, "infra: allocation count differs from the natively measured K");
#endif
#ifdef VERIF_NATIVE
    printf("VERIF_ALLOC_COUNT=%d\n", verif_alloc_count);
#endif
    vnadata_free(vdp);
}
#endif

#ifdef S_VNACAL
int vnaproperty_delete(vnaproperty_t **rootptr, const char *format, ...)
{
    (void)format;
    *rootptr = NULL;
    return 0;
}
void vnacal_new_free(vnacal_new_t *vnp) { (void)vnp; CHECK(0, "no vnacal_new_t exists in this script"); }

static int ext0[VC_PRM_MAX];
/* light invariant (the full wf_params is C16's): count = number of used slots, indices consistent */
static _Bool prm_ok(const vnacal_t *vcp, const int *unused)
{
    const vnacal_parameter_collection_t *c = &vcp->vc_parameter_collection;
    int n = 0;

    (void)unused;
#ifdef S_NO_WF
    return 1;
#endif
    /* this script holds at most 7 parameters: the table is 3 or 8 slots */
    for (int i = 0; i < 8; ++i)
	if (i < c->vprmc_allocation && c->vprmc_vector[i] != NULL) {
	    ++n;
	    if (c->vprmc_vector[i]->vpmr_index != i ||
		    c->vprmc_vector[i]->vpmr_hold_count < 1)
		return 0;
	}
    return n == c->vprmc_count && c->vprmc_allocation <= 8;
}
#define wf_params prm_ok

void h_script_vnacal(void)
{
    IN(double, g);
    double fv[2] = { 1.0e9, 2.0e9 };
    double complex gv[2] = { 0.5, 0.25 };
    double sv[2] = { 0.1, 0.2 };
    vnacal_t *vcp;
    int p_scalar = -1, p_vector = -1, p_unknown = -1, p_corr = -1, p_corr2 = -1;

    /*
     * concrete: vnacal_make_scalar_parameter branches on gamma == 0, 1, -1
     * (predefined handles); a symbolic value merges the heap states of the
     * four branches and the table size turns symbolic (solver memory).
     */
    ASSUME(g == 0.5); g = 0.5;
    ghost_err_reset();
    vcp = vnacal_create(verif_error_fn, NULL);
    if (vcp == NULL) {
	CHECK(verif_alloc_failed && errno == ENOMEM, "create: NULL only under the fault, ENOMEM");
	CHECK(ghost_err_fn_calls == 1, "create: failure reported once");
	vcp = vnacal_create(verif_error_fn, NULL);
	CHECK(vcp != NULL, "create: repeating succeeds");
	ghost_err_reset();
    }
    CHECK(wf_params(vcp, ext0), "create: parameter table well formed");
#define STEP_H(what, var, call) \
    do { \
	int calls_before = ghost_err_calls; \
	var = (call); \
	if (var == -1) { \
	    FAILED_CLEANLY(what); \
	    CHECK(wf_params(vcp, ext0), what ": table well formed after the failed call"); \
	    calls_before = ghost_err_calls; \
	    var = (call); \
	    CHECK(var != -1, what ": repeating the call without the fault succeeds"); \
	} \
	CHECK(wf_params(vcp, ext0), what ": table well formed"); \
    } while (0)
    STEP_H("make_scalar", p_scalar, vnacal_make_scalar_parameter(vcp, (double complex)g));
#ifndef S_NO_VECTOR
    STEP_H("make_vector", p_vector, vnacal_make_vector_parameter(vcp, fv, 2, gv));
#else
    STEP_H("make_vector", p_vector, vnacal_make_scalar_parameter(vcp, 0.5));
#endif
#ifndef S_NO_UNKNOWN
    STEP_H("make_unknown", p_unknown, vnacal_make_unknown_parameter(vcp, p_vector));
#else
    STEP_H("make_unknown", p_unknown, vnacal_make_scalar_parameter(vcp, 0.25));
#endif
#ifdef S_CORRELATED
    STEP_H("make_correlated", p_corr, vnacal_make_correlated_parameter(vcp, p_scalar, fv, 2, sv));
    /* sigma frequencies borrowed (NULL) from the vector parameter at the END of the chain unknown -> vector */
    STEP_H("make_correlated_borrowed", p_corr2, vnacal_make_correlated_parameter(vcp, p_unknown, NULL, 2, sv));
#endif
    REACH("script finished");
#if VERIF_FAIL_AT > 0
    CHECK(verif_alloc_failed, "infra: the injected fault was never reached (vacuous run)");
#endif
    CHECK(p_scalar == 3 && p_vector == 4 && p_unknown == 5,
	    "handles equal those of the fault-free history");
#ifdef S_CORRELATED
    CHECK(p_corr == 6 && p_corr2 == 7, "correlated handles equal those of the fault-free history");
#endif
    (void)p_corr; (void)p_corr2; (void)sv;
#if VERIF_FAIL_AT == 0 && !defined(VERIF_NATIVE)
    CHECK(verif_alloc_count == EXPECT_K, "infra: allocation count differs from the natively measured K");
#endif
#ifdef VERIF_NATIVE
    printf("VERIF_ALLOC_COUNT=%d\n", verif_alloc_count);
#endif
    CHECK(vnacal_delete_parameter(vcp, p_vector) == 0, "delete a held vector handle");
    vnacal_free(vcp);
}
#endif


#ifdef S_PROPERTY
/*
 * script: property tree under allocation faults (public API only).  A failed
 * set returns -1 with ENOMEM, leaves a tree that can still be read, set and
 * freed, and the repeated call succeeds; the final tree equals that of the
 * fault-free history and everything is freed.
 */
#include <vnaproperty.h>
#include <stdarg.h>
/* ASSUMED CONTRACT: vasprintf returns a fresh copy of a format without conversions (harness allocation: not counted) */
int vasprintf(char **strp, const char *fmt, va_list ap)
{
    size_t n = 0;

    (void)ap;
    for (int i = 0; i < 32; ++i) {
	if (fmt[i] == 0)
	    break;
	CHECK(fmt[i] != '%', "infra: property script uses formats without conversions");
	++n;
    }
    *strp = malloc(n + 1);
    ASSUME(*strp != NULL);
    for (size_t i = 0; i <= n; ++i)
	(*strp)[i] = fmt[i];
    return (int)n;
}

static _Bool p_str_eq(const char *a, const char *b)
{
    for (int i = 0; i < 16; ++i) {
	if (a[i] != b[i])
	    return 0;
	if (a[i] == 0)
	    return 1;
    }
    return 0;
}

#define P_STEP(what, call) \
    do { \
	errno = 0; \
	rc = (call); \
	if (rc == -1) { \
	    CHECK(verif_alloc_failed && errno == ENOMEM, what ": fails only under the fault, with ENOMEM"); \
	    (void)vnaproperty_type(root, "."); \
	    (void)vnaproperty_get(root, "foo"); \
	    (void)vnaproperty_count(root, "."); \
	    rc = (call); \
	    CHECK(rc == 0, what ": repeating the call without the fault succeeds"); \
	} \
    } while (0)

/* a read may fail under the fault as well (the descriptor is parsed into allocated nodes): ENOMEM, then the repeat succeeds */
#define P_GET(what, var, call, cond) \
    do { \
	errno = 0; \
	var = (call); \
	if (!(cond) && verif_alloc_failed && !fault_seen) { \
	    fault_seen = 1; \
	    CHECK(errno == ENOMEM, what ": a read disturbed by the fault fails with ENOMEM"); \
	    var = (call); \
	} \
	CHECK(cond, what); \
    } while (0)

void h_script_property(void)
{
    vnaproperty_t *root = NULL;
    const char *v;
    _Bool fault_seen = 0;
    int rc, n, t;

#ifdef S_PLIST
    /*
     * the forms that are NOT idempotent: append and insert.  A call that fails
     * after the element was added must take it out again, or the repeat adds
     * a second one.
     */
    P_STEP("append a map element", vnaproperty_set(&root, "l[+].x=1"));
    fault_seen = verif_alloc_failed;
    P_GET("after the first append: one element", n, vnaproperty_count(root, "l"), n == 1);
    fault_seen = verif_alloc_failed;
    P_STEP("insert a map element in front", vnaproperty_set(&root, "l[0+].x=2"));
    fault_seen = verif_alloc_failed;
    P_GET("final tree: two elements", n, vnaproperty_count(root, "l"), n == 2);
    P_GET("final tree: the inserted element is first", v, vnaproperty_get(root, "l[0].x"), v != NULL && p_str_eq(v, "2"));
    P_GET("final tree: the appended element is second", v, vnaproperty_get(root, "l[1].x"), v != NULL && p_str_eq(v, "1"));
    P_GET("final tree: one key", n, vnaproperty_count(root, "."), n == 1);
    (void)t;
#else
    P_STEP("set foo", vnaproperty_set(&root, "foo=bar"));
    fault_seen = verif_alloc_failed;
    P_STEP("set other", vnaproperty_set(&root, "other=1"));
    fault_seen = verif_alloc_failed;
    P_GET("the first value reads back", v, vnaproperty_get(root, "foo"), v != NULL && p_str_eq(v, "bar"));
    fault_seen = verif_alloc_failed;
    P_STEP("replace scalar by map", vnaproperty_set(&root, "foo.x=1"));
    fault_seen = verif_alloc_failed;
    P_GET("final tree: the nested value reads back", v, vnaproperty_get(root, "foo.x"), v != NULL && p_str_eq(v, "1"));
    P_GET("final tree: the sibling is intact", v, vnaproperty_get(root, "other"), v != NULL && p_str_eq(v, "1"));
    P_GET("final tree: two keys", n, vnaproperty_count(root, "."), n == 2);
    P_GET("final tree: foo is a map", t, vnaproperty_type(root, "foo"), t == 'm');
#endif
    REACH("script finished");
#if VERIF_FAIL_AT > 0
    CHECK(verif_alloc_failed, "infra: the injected fault was never reached (vacuous run)");
#endif
#if VERIF_FAIL_AT == 0 && !defined(VERIF_NATIVE)
    CHECK(verif_alloc_count == EXPECT_K, "infra: allocation count differs from the natively measured K");
#endif
#ifdef VERIF_NATIVE
    printf("VERIF_ALLOC_COUNT=%d\n", verif_alloc_count);
#endif
    (void)vnaproperty_delete(&root, ".");
    CHECK(root == NULL, "the tree can be freed");
}
#endif

#ifdef S_REFUSALS
/*
 * C11 / C03: every documented refusal of vnacal_make_correlated_parameter
 * (no allocation fault involved) returns -1 with one USAGE report, leaves the
 * parameter table as it was and leaks nothing - including the private copies
 * made before the last validation.
 */
#ifndef REFUSE_CASE
#define REFUSE_CASE 0
#endif
void h_correlated_refused(void)
{
    double fv[2] = { 1.0e9, 2.0e9 };
    double bad_fv[2] = { 2.0e9, 1.0e9 };
    double neg_fv[2] = { -1.0, 1.0e9 };
    double sv[2] = { 0.1, 0.2 };
    double bad_sv[2] = { 0.1, -0.2 };
    vnacal_t *vcp;
    int p_scalar, count0, rc = 0;

    ghost_err_reset();
    vcp = vnacal_create(verif_error_fn, NULL);
    ASSUME(vcp != NULL);
    p_scalar = vnacal_make_scalar_parameter(vcp, 0.5);
    ASSUME(p_scalar == 3);
    count0 = vcp->vc_parameter_collection.vprmc_count;
    CHECK(ghost_err_calls == 0, "set-up is silent");
#if REFUSE_CASE == 0		/* a sigma value that is not positive (after the frequency copy was made) */
    rc = vnacal_make_correlated_parameter(vcp, p_scalar, fv, 2, bad_sv);
#elif REFUSE_CASE == 1		/* frequencies not ascending */
    rc = vnacal_make_correlated_parameter(vcp, p_scalar, bad_fv, 2, sv);
#elif REFUSE_CASE == 2		/* negative frequency */
    rc = vnacal_make_correlated_parameter(vcp, p_scalar, neg_fv, 2, sv);
#elif REFUSE_CASE == 3		/* invalid handle of the initial guess */
    rc = vnacal_make_correlated_parameter(vcp, 9, fv, 2, sv);
#elif REFUSE_CASE == 4		/* no sigma point */
    rc = vnacal_make_correlated_parameter(vcp, p_scalar, fv, 0, sv);
#elif REFUSE_CASE == 5		/* NULL sigma vector */
    rc = vnacal_make_correlated_parameter(vcp, p_scalar, fv, 2, NULL);
#elif REFUSE_CASE == 6		/* NULL frequencies with a scalar guess and two points */
    rc = vnacal_make_correlated_parameter(vcp, p_scalar, NULL, 2, sv);
#endif
    (void)bad_fv; (void)neg_fv; (void)bad_sv; (void)sv; (void)fv;
    REACH("refused make_correlated returned");
    CHECK(rc == -1, "the invalid request is refused");
    CHECK(ghost_err_calls == 1 && ghost_err_category == VNAERR_USAGE && errno == EINVAL,
	    "reported once as a usage error (EINVAL)");
    CHECK(wf_params(vcp, ext0) && vcp->vc_parameter_collection.vprmc_count == count0,
	    "the parameter table is as it was");
    vnacal_free(vcp);
    /* --memory-leak-check: nothing the refused call allocated survives */
}
#endif

#ifdef S_VNACAL_NEW
/* script: vnacal_new_alloc and one added standard, each retried after a fault */
int vnaproperty_delete(vnaproperty_t **rootptr, const char *format, ...)
{
    (void)format;
    *rootptr = NULL;
    return 0;
}

void h_script_vnacal_new(void)
{
    IN(double, mval);
    static double f[1] = { 1.0e9 };
    double complex v1[1];
    double complex *m1[1] = { v1 };
    vnacal_t *vcp;
    vnacal_new_t *vnp;
    int calls_before;

    v1[0] = mval;
    ghost_err_reset();
    vcp = vnacal_create(verif_error_fn, NULL);
    if (vcp == NULL) {
	CHECK(verif_alloc_failed && errno == ENOMEM, "create: NULL only under the fault, ENOMEM");
	vcp = vnacal_create(verif_error_fn, NULL);
	CHECK(vcp != NULL, "create: repeating succeeds");
	ghost_err_reset();
    }
    calls_before = ghost_err_calls;
    vnp = vnacal_new_alloc(vcp, VNACAL_T8, 2, 2, 1);
    if (vnp == NULL) {
	FAILED_CLEANLY("new_alloc");
	vnp = vnacal_new_alloc(vcp, VNACAL_T8, 2, 2, 1);
	CHECK(vnp != NULL, "new_alloc: repeating succeeds");
    }
    CHECK(vnp->vn_magic == VN_MAGIC && vnp->vn_equations == 0, "new_alloc: fresh object");
    CHECK(vnacal_new_set_frequency_vector(vnp, f) == 0, "set_frequency_vector");
    {
	int calls_before = ghost_err_calls;
	int rc = vnacal_new_add_single_reflect_m(vnp, m1, 1, 1, VNACAL_SHORT, 1);

	if (rc == -1) {
	    FAILED_CLEANLY("add");
	    CHECK(vnp->vn_equations == 0 && vnp->vn_measurement_count == 0 &&
		    vnp->vn_measurement_list == NULL,
		    "add: a failed standard adds nothing");
	    rc = vnacal_new_add_single_reflect_m(vnp, m1, 1, 1, VNACAL_SHORT, 1);
	    CHECK(rc == 0, "add: repeating succeeds");
	}
    }
#ifdef S_M_ERROR
    {	/* noise model on its own three-point grid (spline allocations), set twice */
	static double nfg[3] = { 0.5e9, 1.0e9, 2.0e9 };
	static double nf1[3] = { 1.0e-3, 2.0e-3, 3.0e-3 }, nf2[3] = { 4.0e-3, 5.0e-3, 6.0e-3 };
	int calls_before = ghost_err_calls;
	int rc = vnacal_new_set_m_error(vnp, nfg, 3, nf1, NULL);

	if (rc == -1) {
	    FAILED_CLEANLY("set_m_error");
	    CHECK(vnp->vn_m_error_vector == NULL, "set_m_error: a failed first setting leaves the model disabled");
	    rc = vnacal_new_set_m_error(vnp, nfg, 3, nf1, NULL);
	    CHECK(rc == 0, "set_m_error: repeating succeeds");
	}
	CHECK(vnp->vn_m_error_vector != NULL && vnp->vn_m_error_vector[0].vnme_sigma_nf == 2.0e-3,
		"set_m_error: the value at a grid point is the given one");
	calls_before = ghost_err_calls;
	rc = vnacal_new_set_m_error(vnp, nfg, 3, nf2, NULL);
	if (rc == -1) {
	    FAILED_CLEANLY("set_m_error (second)");
	    CHECK(vnp->vn_m_error_vector != NULL && vnp->vn_m_error_vector[0].vnme_sigma_nf == 2.0e-3,
		    "set_m_error: a failed change leaves the previous setting in place");
	    rc = vnacal_new_set_m_error(vnp, nfg, 3, nf2, NULL);
	    CHECK(rc == 0, "set_m_error (second): repeating succeeds");
	}
	CHECK(vnp->vn_m_error_vector != NULL && vnp->vn_m_error_vector[0].vnme_sigma_nf == 5.0e-3,
		"set_m_error: the new setting is in effect");
    }
#endif
#ifdef S_THROUGH
    {	/* a standard with off-diagonal terms, an unknown parameter and a second use of it (hash hit) */
	static double complex tv[4][1];
	double complex *mt[4] = { tv[0], tv[1], tv[2], tv[3] };
	int calls_before = ghost_err_calls;
	int eq0 = vnp->vn_equations;
	int rc;

	tv[0][0] = 0.0; tv[1][0] = mval; tv[2][0] = mval; tv[3][0] = 0.0;
	rc = vnacal_new_add_through_m(vnp, mt, 2, 2, 1, 2);
	if (rc == -1) {
	    FAILED_CLEANLY("add_through");
	    CHECK(vnp->vn_equations == eq0 && vnp->vn_measurement_count == 1,
		    "add_through: a failed standard adds nothing");
	    rc = vnacal_new_add_through_m(vnp, mt, 2, 2, 1, 2);
	    CHECK(rc == 0, "add_through: repeating succeeds");
	}
	CHECK(vnp->vn_measurement_count == 2 && vnp->vn_equations > eq0, "add_through: recorded");
    }
#endif
#ifdef S_UNKNOWN
    {	/* a standard that introduces an UNKNOWN parameter: a failed call forgets it completely, the repeat registers it once */
	int calls_before = ghost_err_calls;
	int hash0, unk0 = vnp->vn_unknown_parameters, std0 = vnp->vn_measurement_count, eq0 = vnp->vn_equations;
	int u, rc;

	u = vnacal_make_unknown_parameter(vcp, VNACAL_SHORT);
	if (u == -1) {
	    FAILED_CLEANLY("make_unknown");
	    u = vnacal_make_unknown_parameter(vcp, VNACAL_SHORT);
	    CHECK(u >= 0, "make_unknown: repeating succeeds");
	}
	hash0 = vnp->vn_parameter_hash.vnph_count;
	calls_before = ghost_err_calls;
	rc = vnacal_new_add_single_reflect_m(vnp, m1, 1, 1, u, 2);
	if (rc == -1) {
	    FAILED_CLEANLY("add with unknown");
	    CHECK(vnp->vn_equations == eq0 && vnp->vn_measurement_count == std0,
		    "add with unknown: a failed standard adds nothing");
	    CHECK(vnp->vn_unknown_parameters == unk0 && vnp->vn_unknown_parameter_list == NULL &&
		    vnp->vn_unknown_parameter_anchor == &vnp->vn_unknown_parameter_list &&
		    vnp->vn_parameter_hash.vnph_count == hash0,
		    "add with unknown: a failed standard leaves no parameter behind (count, list, anchor, hash)");
	    rc = vnacal_new_add_single_reflect_m(vnp, m1, 1, 1, u, 2);
	    CHECK(rc == 0, "add with unknown: repeating succeeds");
	}
	CHECK(vnp->vn_unknown_parameters == unk0 + 1 && vnp->vn_unknown_parameter_list != NULL &&
		vnp->vn_unknown_parameter_list->vnpr_parameter == _vnacal_get_parameter(vcp, u) &&
		vnp->vn_unknown_parameter_list->vnpr_unknown_index == 0 &&
		vnp->vn_unknown_parameter_list->vnpr_next_unknown == NULL &&
		vnp->vn_unknown_parameter_anchor == &vnp->vn_unknown_parameter_list->vnpr_next_unknown,
		"add with unknown: the unknown is registered exactly once, as in the fault-free history");
	(void)vnacal_delete_parameter(vcp, u);
    }
#endif
    REACH("script finished");
#if VERIF_FAIL_AT > 0
    CHECK(verif_alloc_failed, "infra: the injected fault was never reached (vacuous run)");
#endif
    CHECK(vnp->vn_measurement_count >= 1 && vnp->vn_equations >= 1,
	    "final state equals that of the fault-free history");
#if VERIF_FAIL_AT == 0 && !defined(VERIF_NATIVE)
    CHECK(verif_alloc_count == EXPECT_K, "infra: allocation count differs from the natively measured K");
#endif
#ifdef VERIF_NATIVE
    printf("VERIF_ALLOC_COUNT=%d\n", verif_alloc_count);
#endif
    vnacal_new_free(vnp);
    vnacal_free(vcp);
}
#endif

#ifdef S_ADDCAL
/* script: replace a calibration by name, then add one that grows the table */
int vnaproperty_delete(vnaproperty_t **rootptr, const char *format, ...)
{
    (void)format;
    *rootptr = NULL;
    return 0;
}
void vnacal_new_free(vnacal_new_t *vnp) { (void)vnp; CHECK(0, "no vnacal_new_t exists in this script"); }

void h_script_addcal(void)
{
    vnacal_t *vcp = mk_vcp_min(1);
    vnacal_calibration_t *old, *c1, *c2;
    char na[2] = "a", nb[2] = "b";
    int rc, calls_before;

    /* table with one slot holding "a" */
    vcp->vc_calibration_allocation = 1;
    vcp->vc_calibration_vector = malloc(sizeof(vnacal_calibration_t *));
    ASSUME(vcp->vc_calibration_vector != NULL);
    old = mk_calibration(vcp, 'a', VNACAL_T8, 2, 2, 1.0e9);
    vcp->vc_calibration_vector[0] = old;
    c1 = mk_calibration(vcp, 0, VNACAL_U8, 1, 1, 2.0e9);
    c2 = mk_calibration(vcp, 0, VNACAL_T8, 1, 1, 3.0e9);
    verif_alloc_count = 0;			/* count library allocations only */
    ghost_err_reset();

    calls_before = ghost_err_calls;
    rc = _vnacal_add_calibration_common("h", vcp, c1, na);	/* replace "a" */
    if (rc == -1) {
	FAILED_CLEANLY("replace");
	CHECK(wf_caltable(vcp) && vcp->vc_calibration_vector[0] == old,
		"replace: after the failed call the old calibration is still installed and intact");
	CHECK(vnacal_find_calibration(vcp, na) == 0, "replace: the old calibration is still found");
	rc = _vnacal_add_calibration_common("h", vcp, c1, na);
	CHECK(rc != -1, "replace: repeating succeeds");
    }
    CHECK(rc == 0 && vcp->vc_calibration_vector[0] == c1 && wf_caltable(vcp), "replace: slot 0 holds the new calibration");

    calls_before = ghost_err_calls;
    rc = _vnacal_add_calibration_common("h", vcp, c2, nb);	/* grows 1 -> 8 */
    if (rc == -1) {
	FAILED_CLEANLY("grow");
	CHECK(wf_caltable(vcp) && vcp->vc_calibration_vector[0] == c1, "grow: table intact after the failed call");
	rc = _vnacal_add_calibration_common("h", vcp, c2, nb);
	CHECK(rc != -1, "grow: repeating succeeds");
    }
    REACH("script finished");
#if VERIF_FAIL_AT > 0
    CHECK(verif_alloc_failed, "infra: the injected fault was never reached (vacuous run)");
#endif
    CHECK(rc == 1 && vcp->vc_calibration_allocation == 8 && vcp->vc_calibration_vector[1] == c2 && wf_caltable(vcp),
	    "final table equals that of the fault-free history");
#if VERIF_FAIL_AT == 0 && !defined(VERIF_NATIVE)
    CHECK(verif_alloc_count == EXPECT_K, "infra: allocation count differs from the natively measured K");
#endif
#ifdef VERIF_NATIVE
    printf("VERIF_ALLOC_COUNT=%d\n", verif_alloc_count);
#endif
    vnacal_free(vcp);
}
#endif

#ifdef VERIF_NATIVE
int main(void) { HARNESS(); return 0; }
#endif

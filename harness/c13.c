/*
 * C13 harnesses: the container layer of the property tree (lists, maps,
 * scalars) against an abstract sequence / ordered-map model, and
 * vnaproperty_quote_key against the real scanner.
 * The functions are static: the harness includes the translation unit.
 */
#include "/repo/src/vnaproperty.c"
#include "verif.h"

#ifndef L_MAX
#define L_MAX 16		/* view size for lists */
#endif

static vnaproperty_t *mk_scalar_node(char c)
{
    char s[2] = { c, 0 };
    vnaproperty_t *p = scalar_alloc(s);

    ASSUME(p != NULL);
    return p;
}

/* ------------------------------------------------------------------- lists */
typedef struct list_view {
    size_t length;
    vnaproperty_t *elem[L_MAX];
} list_view_t;

static _Bool wf_list(const vnaproperty_list_t *l)
{
    if (l->vpl_base.vpr_type != VNAPROPERTY_LIST)
	return 0;
    if (l->vpl_length > l->vpl_allocation || l->vpl_allocation > L_MAX)
	return 0;
    if (!(l->vpl_allocation == 0 || l->vpl_allocation == 8 ||
		l->vpl_allocation == 16))
	return 0;
    if ((l->vpl_vector == NULL) != (l->vpl_allocation == 0))
	return 0;
    if (l->vpl_allocation != 0 && !VERIF_OBJ_SIZE_GE(l->vpl_vector,
		l->vpl_allocation * sizeof(vnaproperty_t *)))
	return 0;
    for (size_t k = 0; k < L_MAX; ++k)
	if (k >= l->vpl_length && k < l->vpl_allocation &&
		l->vpl_vector[k] != NULL)
	    return 0;			/* slack slots are NULL */
    return 1;
}

static void list_view_of(const vnaproperty_list_t *l, list_view_t *v)
{
    v->length = l->vpl_length;
    for (size_t k = 0; k < L_MAX; ++k)
	v->elem[k] = k < l->vpl_length ? l->vpl_vector[k] : NULL;
}

/* any well-formed list: allocation LIST_ALLOC (0 or 8), length and elements symbolic */
#ifndef LIST_ALLOC
#define LIST_ALLOC 8
#endif
static vnaproperty_list_t *mk_list(int length, const _Bool *present)
{
    vnaproperty_list_t *l = (vnaproperty_list_t *)list_alloc();

    ASSUME(l != NULL);
#ifdef LIST_FIX
    ASSUME(length == LIST_LENGTH); length = LIST_LENGTH;
#endif
    ASSUME(length >= 0 && length <= LIST_ALLOC);
    l->vpl_allocation = LIST_ALLOC;
    l->vpl_length = length;
    if (LIST_ALLOC != 0) {
	l->vpl_vector = malloc(LIST_ALLOC * sizeof(vnaproperty_t *));
	ASSUME(l->vpl_vector != NULL);
	for (int k = 0; k < LIST_ALLOC; ++k) {
	    l->vpl_vector[k] = NULL;
	    if (k < length && present[k])
		l->vpl_vector[k] = mk_scalar_node('a' + k);
	}
    }
    return l;
}

void h_list(void)
{
    IN(int, length);
    IN_ARR(bool, present, 16);
    IN(int, op);
    IN(int, index);
    IN(bool, add);
    IN(int, g_k);
    vnaproperty_list_t *l = mk_list(length, present);
    vnaproperty_t *list = (vnaproperty_t *)l;
    list_view_t pre, post;
    vnaproperty_t **pp;
    int rc;

    CHECK(wf_list(l), "mk_list builds only wf lists");
    list_view_of(l, &pre);
#ifdef LIST_FIX
    ASSUME(op == LIST_OP); op = LIST_OP;
    ASSUME(index == LIST_INDEX); index = LIST_INDEX;
#ifdef LIST_ADD
    ASSUME(add == LIST_ADD); add = LIST_ADD;
#endif
#endif
    ASSUME(index >= -1 && index <= LIST_ALLOC + 2);
    ASSUME(op >= 0 && op <= 4);
    errno = 0;
    switch (op) {
    case 0:				/* subscript [i], with or without creating */
	pp = list_subtree(list, add, index);
	REACH("list_subtree returned");
	list_view_of(l, &post);
	if (index < 0) {
	    CHECK(pp == NULL && errno == EINVAL, "negative index: EINVAL");
	    CHECK(post.length == pre.length, "refused: nothing changes");
	} else if ((size_t)index < pre.length) {
	    CHECK(pp != NULL && *pp == pre.elem[index], "[i] addresses child i");
	    CHECK(post.length == pre.length, "lookup changes nothing");
	} else if (!add) {
	    CHECK(pp == NULL && errno == ENOENT, "missing index: ENOENT");
	    CHECK(post.length == pre.length, "refused: nothing changes");
	} else {
	    CHECK(pp != NULL && *pp == NULL && post.length == (size_t)index + 1,
		    "set beyond the end extends the list with nulls");
	}
	if (g_k >= 0 && (size_t)g_k < pre.length && g_k < L_MAX)
	    CHECK(post.elem[g_k] == pre.elem[g_k], "existing children kept");
	if (g_k >= 0 && (size_t)g_k >= pre.length && (size_t)g_k < post.length &&
		g_k < L_MAX)
	    CHECK(post.elem[g_k] == NULL, "new children are null");
	break;
    case 1:				/* insert [i+] */
	pp = list_insert(list, index);
	REACH("list_insert returned");
	list_view_of(l, &post);
	if (index < 0) {
	    CHECK(pp == NULL && errno == EINVAL, "negative index: EINVAL");
	    CHECK(post.length == pre.length, "refused: nothing changes");
	} else if ((size_t)index < pre.length) {
	    CHECK(pp != NULL && *pp == NULL && post.length == pre.length + 1,
		    "insert makes room for one null child at i");
	    if (g_k >= 0 && g_k < index)
		CHECK(post.elem[g_k] == pre.elem[g_k], "children before i kept");
	    if (g_k >= index && (size_t)g_k < pre.length && g_k + 1 < L_MAX)
		CHECK(post.elem[g_k + 1] == pre.elem[g_k],
			"children from i on shift up by one");
	} else {
	    CHECK(pp != NULL && *pp == NULL && post.length == (size_t)index + 1,
		    "insert at or past the end extends the list");
	}
	break;
    case 2:				/* append [+] */
	pp = list_append(list);
	REACH("list_append returned");
	list_view_of(l, &post);
	CHECK(pp != NULL && *pp == NULL && post.length == pre.length + 1,
		"append adds one null child at the end");
	if (g_k >= 0 && (size_t)g_k < pre.length && g_k < L_MAX)
	    CHECK(post.elem[g_k] == pre.elem[g_k], "existing children kept");
	break;
    case 3:				/* delete [i] */
	rc = list_delete(list, index);
	REACH("list_delete returned");
	list_view_of(l, &post);
	if (index < 0) {
	    CHECK(rc == -1 && errno == EINVAL, "negative index: EINVAL");
	    CHECK(post.length == pre.length, "refused: nothing changes");
	} else if ((size_t)index >= pre.length) {
	    CHECK(rc == -1 && errno == ENOENT, "missing index: ENOENT");
	    CHECK(post.length == pre.length, "refused: nothing changes");
	} else {
	    REACH("list_delete accepted");
	    CHECK(rc == 0 && post.length == pre.length - 1,
		    "delete removes one child");
	    if (g_k >= 0 && g_k < index)
		CHECK(post.elem[g_k] == pre.elem[g_k], "children before i kept");
	    if (g_k >= index && (size_t)g_k + 1 < pre.length && g_k + 1 < L_MAX)
		CHECK(post.elem[g_k] == pre.elem[g_k + 1],
			"children after i shift down by one");
	}
	break;
    default:
	CHECK(list_count(list) == (int)pre.length, "count is the length");
	REACH("list_count returned");
	list_view_of(l, &post);
	break;
    }
    CHECK(wf_list(l), "list stays well formed (slack slots null)");
    vnaproperty_free(list);
    /* --memory-leak-check: the deleted child was freed too */
}

/* -------------------------------------------------------------------- maps */
#ifndef MAP_STEPS
#define MAP_STEPS 3
#endif
#define MAP_KEYS 4
typedef struct map_model {
    int n;
    char key[MAP_STEPS + 1];
    vnaproperty_t *val[MAP_STEPS + 1];
} map_model_t;

static int model_find(const map_model_t *m, char k)
{
    for (int i = 0; i < MAP_STEPS + 1; ++i)
	if (i < m->n && m->key[i] == k)
	    return i;
    return -1;
}

static void check_map_matches_model(vnaproperty_t *map, const map_model_t *m)
{
    vnaproperty_map_t *vpmp = (vnaproperty_map_t *)map;
    vnaproperty_map_element_t *e = vpmp->vpm_order_head;

    CHECK(map_count(map) == m->n, "count equals the number of keys");
    for (int i = 0; i < MAP_STEPS + 1; ++i) {
	if (i < m->n) {
	    CHECK(e != NULL && e->vme_pair.vmpr_key[0] == m->key[i] &&
		    e->vme_pair.vmpr_key[1] == 0 &&
		    e->vme_pair.vmpr_value == m->val[i],
		    "keys are kept in insertion order with their values");
	    if (e != NULL)
		e = e->vme_order_next;
	}
    }
    CHECK(e == NULL, "no key beyond the model");
}

void h_map(void)
{
    IN_ARR(int, ops, MAP_STEPS);
    IN_ARR(char, keys, MAP_STEPS);
    vnaproperty_t *map = map_alloc();
    map_model_t m;

    ASSUME(map != NULL);
    m.n = 0;
    for (int s = 0; s < MAP_STEPS; ++s) {
	char k[2];
	int at;

#ifdef MAP_OPS
	{ static const int fixed_ops[] = { MAP_OPS }; ASSUME(ops[s] == fixed_ops[s]); ops[s] = fixed_ops[s]; }
#endif
	ASSUME(ops[s] >= 0 && ops[s] <= 2);
#ifdef MAP_KEYSEQ
	{ static const char fixed_keys[] = { MAP_KEYSEQ }; ASSUME(keys[s] == fixed_keys[s]); keys[s] = fixed_keys[s]; }
#else
	ASSUME(keys[s] >= 'a' && keys[s] < 'a' + MAP_KEYS);
#endif
	k[0] = keys[s]; k[1] = 0;
	at = model_find(&m, keys[s]);
	errno = 0;
	if (ops[s] == 0) {		/* set: creates the key */
	    vnaproperty_t **pp = map_subtree(map, /*add*/1, k);

	    CHECK(pp != NULL, "set finds or creates the key");
	    if (pp == NULL)
		break;
	    if (at >= 0) {
		CHECK(*pp == m.val[at], "existing key keeps its value slot");
	    } else {
		CHECK(*pp == NULL, "a new key starts with a null value");
		*pp = mk_scalar_node(keys[s]);
		m.key[m.n] = keys[s];
		m.val[m.n] = *pp;
		++m.n;
	    }
	} else if (ops[s] == 1) {	/* get: never modifies */
	    vnaproperty_t **pp = map_subtree(map, /*add*/0, k);

	    REACH("map lookup returned");
	    if (at >= 0)
		CHECK(pp != NULL && *pp == m.val[at], "get finds the key");
	    else
		CHECK(pp == NULL && errno == ENOENT, "missing key: ENOENT");
	} else {			/* delete */
	    int rc = map_delete(map, k);

	    REACH("map_delete returned");
	    if (at >= 0) {
		CHECK(rc == 0, "delete removes an existing key");
		for (int i = 0; i < MAP_STEPS; ++i)
		    if (i >= at && i + 1 < m.n) {
			m.key[i] = m.key[i + 1];
			m.val[i] = m.val[i + 1];
		    }
		--m.n;
	    } else {
		CHECK(rc == -1 && errno == ENOENT, "missing key: ENOENT");
	    }
	}
	check_map_matches_model(map, &m);
    }
    REACH("map history finished");
    vnaproperty_free(map);
    /* --memory-leak-check: lookups of missing keys leave nothing behind */
}

/* --------------------------------------------------------------- quote_key */
#ifndef KEY_LEN
#define KEY_LEN 2
#endif
void h_quote_key(void)
{
    IN_ARR(char, kc, KEY_LEN);
    char key[KEY_LEN + 1];
    char *q;
    scanner_t scn;

#ifdef KEY_BYTES
    { static const char fixed[] = { KEY_BYTES }; for (int i = 0; i < KEY_LEN; ++i) { ASSUME(kc[i] == fixed[i]); kc[i] = fixed[i]; } }
#endif
    for (int i = 0; i < KEY_LEN; ++i) {
	ASSUME(kc[i] != 0);
	key[i] = kc[i];
    }
    key[KEY_LEN] = 0;
    q = vnaproperty_quote_key(key);
    REACH("quote_key returned");
    CHECK(q != NULL, "quote_key returns a string");
    (void)memset((void *)&scn, 0, sizeof(scn));
    scn.scn_input = q;
    scn.scn_position = q;
    scn.scn_cur = q[0];
    scan(&scn);
    CHECK(scn.scn_token == T_ID,
	    "the quoted key scans as one identifier");
    if (scn.scn_token == T_ID) {
	_Bool same = 1;

	for (int i = 0; i <= KEY_LEN; ++i)
	    if (scn.scn_text[i] != key[i])
		same = 0;
	CHECK(same, "the identifier is exactly the original key");
	scan(&scn);
	CHECK(scn.scn_token == T_EOF, "and nothing follows it");
    }
    free(q);
}

/* ------------------------------------------------------- map_compare_keys */
/*
 * The order the hash chains are kept in (and searched by, with early exit):
 * lexicographic on (32-bit hash value, key string).  Contract over the FULL
 * domain of both hash values and one-byte keys: the sign of the result is
 * the sign of that comparison -- hence antisymmetric and transitive, which
 * is what map_find_anchor's early exit needs.  Loop-free: a complete proof.
 */
void h_map_compare(void)
{
    IN(uint, h1);
    IN(uint, h2);
    IN(char, c1);
    IN(char, c2);
    vnaproperty_map_element_t e;
    char k1[2], k2[2];
    int r, want;

    ASSUME(c1 != 0 && c2 != 0);
    k1[0] = c1; k1[1] = 0;
    k2[0] = c2; k2[1] = 0;
    (void)memset((void *)&e, 0, sizeof(e));
    e.vme_hashval = h2;
    e.vme_pair.vmpr_key = k2;
    r = map_compare_keys(k1, h1, &e);
    REACH("map_compare_keys returned");
    want = h1 < h2 ? -1 : h1 > h2 ? 1 :
	(unsigned char)c1 < (unsigned char)c2 ? -1 : (unsigned char)c1 > (unsigned char)c2 ? 1 : 0;
    CHECK((r < 0) == (want < 0) && (r > 0) == (want > 0),
	    "map_compare_keys orders by (hash value, key): the sign of the result is the sign of that comparison");
}

/* -------------------------------------------------------------- descriptors */
#if defined(H_DESCRIPTOR) || defined(H_EXPORT)
#ifndef VERIF_NATIVE
/* ASSUMED CONTRACT: vasprintf for the conversions the library's own descriptors use: %s and %d (0..99) */
int vasprintf(char **strp, const char *fmt, va_list ap)
{
    char buf[48];
    size_t n = 0;

    for (int i = 0; i < 32; ++i) {
	if (fmt[i] == 0)
	    break;
	if (fmt[i] == '%') {
	    ++i;
	    if (fmt[i] == 's') {
		const char *a = va_arg(ap, const char *);

		for (int k = 0; k < 16; ++k) {
		    if (a[k] == 0)
			break;
		    CHECK(n < sizeof(buf) - 1, "infra: descriptor harness string too long");
		    buf[n++] = a[k];
		}
	    } else if (fmt[i] == 'd') {
		int d = va_arg(ap, int);

		CHECK(d >= 0 && d <= 99, "infra: descriptor harness uses small non-negative subscripts");
		if (d >= 10)
		    buf[n++] = (char)('0' + d / 10);
		buf[n++] = (char)('0' + d % 10);
	    } else {
		CHECK(0, "infra: descriptor harness: conversion other than %s, %d");
	    }
	    continue;
	}
	CHECK(n < sizeof(buf) - 1, "infra: descriptor harness string too long");
	buf[n++] = fmt[i];
    }
    *strp = malloc(n + 1);
    ASSUME(*strp != NULL);
    for (size_t i = 0; i < n; ++i)
	(*strp)[i] = buf[i];
    (*strp)[n] = 0;
    return (int)n;
}
#endif

/*
 * Descriptor strings against the document model: set creates what get finds;
 * a malformed or non-matching descriptor fails with the documented errno and
 * changes nothing; nothing crashes and nothing leaks.  Concrete descriptors
 * (one per run), the real scanner / parser / container code.
 */
#ifndef DESC_CASE
#define DESC_CASE 0
#endif
static _Bool str_eq(const char *a, const char *b)
{
    for (int i = 0; i < 16; ++i) {
	if (a[i] != b[i])
	    return 0;
	if (a[i] == 0)
	    return 1;
    }
    return 0;
}

void h_descriptor(void)
{
    vnaproperty_t *root = NULL;
    const char *v;
    vnaproperty_t *sub;
    int rc;

    rc = vnaproperty_set(&root, "foo=bar");
    CHECK(rc == 0 && root != NULL, "set creates the map entry");
    REACH("tree built");
    v = vnaproperty_get(root, "foo");
    CHECK(v != NULL && str_eq(v, "bar"), "get returns the value that was set");
#if DESC_CASE == 0
    errno = 0;
    sub = vnaproperty_get_subtree(root, "foo=x");	/* trailing tokens */
    REACH("malformed get_subtree returned");
    CHECK(sub == NULL && errno == EINVAL, "get_subtree with trailing tokens is refused with EINVAL");
#elif DESC_CASE == 1
    errno = 0;
    v = vnaproperty_get(root, "nokey");
    REACH("get of a missing key returned");
    CHECK(v == NULL && errno == ENOENT, "a missing key is ENOENT");
#elif DESC_CASE == 2
    errno = 0;
    sub = vnaproperty_get_subtree(root, "foo");
    REACH("get_subtree returned");
    CHECK(sub != NULL && vnaproperty_type(sub, ".") == 's', "get_subtree finds the scalar");
#elif DESC_CASE == 3
    errno = 0;
    rc = vnaproperty_set(&root, "foo[");		/* syntax error */
    REACH("malformed set returned");
    CHECK(rc == -1 && errno == EINVAL, "a syntax error is refused with EINVAL");
    v = vnaproperty_get(root, "foo");
    CHECK(v != NULL && str_eq(v, "bar"), "a refused set changes nothing");
#elif DESC_CASE == 4
    errno = 0;
    v = vnaproperty_get(root, "foo[0]");		/* type mismatch: scalar indexed as a list */
    REACH("mismatched get returned");
    CHECK(v == NULL && errno != 0, "indexing a scalar fails with an errno");
    v = vnaproperty_get(root, "foo");
    CHECK(v != NULL && str_eq(v, "bar"), "a failed get changes nothing");
#elif DESC_CASE == 5
    rc = vnaproperty_set(&root, "lst[1]=b");
    CHECK(rc == 0, "set extends a list");
    REACH("list created");
    CHECK(vnaproperty_count(root, "lst") == 2, "a list set at index 1 has two elements");
    v = vnaproperty_get(root, "lst[1]");
    CHECK(v != NULL && str_eq(v, "b"), "the element reads back");
    errno = 0;
    v = vnaproperty_get(root, "lst[0]");
    CHECK(v == NULL, "the skipped element has no value");
#elif DESC_CASE == 6
    rc = vnaproperty_delete(&root, "foo");
    REACH("delete returned");
    CHECK(rc == 0, "delete removes the key");
    errno = 0;
    v = vnaproperty_get(root, "foo");
    CHECK(v == NULL && errno == ENOENT, "the deleted key is gone");
    errno = 0;
    rc = vnaproperty_delete(&root, "foo");
    CHECK(rc == -1 && errno == ENOENT, "deleting it again is ENOENT");
#elif DESC_CASE == 7
    rc = vnaproperty_set(&root, "a.b=1");
    REACH("nested set returned");
    CHECK(rc == 0, "a nested map is created on demand");
    CHECK(vnaproperty_type(root, "a") == 'm' && vnaproperty_type(root, "a.b") == 's' &&
	    vnaproperty_type(root, ".") == 'm', "types along the path");
    v = vnaproperty_get(root, "a.b");
    CHECK(v != NULL && str_eq(v, "1"), "the nested value reads back");
    CHECK(vnaproperty_count(root, "a") == 1 && vnaproperty_count(root, ".") == 2, "counts of the two maps");
    v = vnaproperty_get(root, "foo");
    CHECK(v != NULL && str_eq(v, "bar"), "the sibling is untouched");
#elif DESC_CASE == 8
    {
	const char **keys;

	rc = vnaproperty_set(&root, "zed=1");
	CHECK(rc == 0, "second key set");
	keys = vnaproperty_keys(root, ".");
	REACH("keys returned");
	CHECK(keys != NULL && keys[0] != NULL && keys[1] != NULL && keys[2] == NULL,
		"keys returns a NULL-terminated vector with one entry per key");
	if (keys != NULL && keys[0] != NULL && keys[1] != NULL)
	    CHECK(str_eq(keys[0], "foo") && str_eq(keys[1], "zed"), "keys come in insertion order");
	free((void *)keys);
    }
#elif DESC_CASE == 9
    rc = vnaproperty_set(&root, "foo=baz");
    REACH("overwrite returned");
    CHECK(rc == 0, "set overwrites an existing value");
    v = vnaproperty_get(root, "foo");
    CHECK(v != NULL && str_eq(v, "baz"), "the new value reads back (old one freed: leak check)");
    CHECK(vnaproperty_count(root, ".") == 1, "still one key");
#elif DESC_CASE == 10
    rc = vnaproperty_set(&root, "\\2port=x");		/* quoted first character */
    REACH("quoted set returned");
    CHECK(rc == 0, "a key starting with a digit can be set when quoted");
    v = vnaproperty_get(root, "\\2port");
    CHECK(v != NULL && str_eq(v, "x"), "and read back with the same quoting");
    {
	const char **keys = vnaproperty_keys(root, ".");

	CHECK(keys != NULL && keys[0] != NULL && keys[1] != NULL && keys[2] == NULL &&
		str_eq(keys[1], "2port"), "the stored key is the unquoted text");
	free((void *)keys);
    }
#elif DESC_CASE == 12
    rc = vnaproperty_set(&root, "\\a\\b  =1");		/* two escapes, then unescaped trailing spaces */
    REACH("escaped set returned");
    CHECK(rc == 0, "escaped identifier characters are accepted");
    v = vnaproperty_get(root, "ab");
    CHECK(v != NULL && str_eq(v, "1"), "unescaped trailing spaces are not part of the key, however many escapes precede them");
    rc = vnaproperty_set(&root, "c\\ =2");		/* an ESCAPED trailing space belongs to the key */
    CHECK(rc == 0, "an escaped space is accepted");
    v = vnaproperty_get(root, "c\\ ");
    CHECK(v != NULL && str_eq(v, "2"), "an escaped trailing space is part of the key");
    errno = 0;
    v = vnaproperty_get(root, "c");
    CHECK(v == NULL && errno == ENOENT, "and the key without it is a different key");
#elif DESC_CASE == 13
    /* a well-formed path without a value: refused, and NOT after the path was forced into the tree */
    errno = 0;
    rc = vnaproperty_set(&root, "foo.b");
    REACH("set without a value returned");
    CHECK(rc == -1 && errno == EINVAL, "a set without '=' or '#' is refused with EINVAL");
    v = vnaproperty_get(root, "foo");
    CHECK(v != NULL && str_eq(v, "bar"), "a refused set changes nothing (the scalar on the path is still there)");
    CHECK(vnaproperty_type(root, "foo") == 's' && vnaproperty_count(root, ".") == 1, "types and counts are unchanged");
    errno = 0;
    rc = vnaproperty_set(&root, "new.key");
    CHECK(rc == -1 && errno == EINVAL, "the same for a path that does not exist yet");
    CHECK(vnaproperty_count(root, ".") == 1 && vnaproperty_type(root, "new") == -1, "no key is created by a refused set");
#elif DESC_CASE == 14
    /* set_subtree with trailing tokens: refused before the tree is touched */
    errno = 0;
    CHECK(vnaproperty_set_subtree(&root, "foo.b=1") == NULL && errno == EINVAL,
	    "set_subtree with trailing tokens is refused with EINVAL");
    REACH("set_subtree with trailing tokens returned");
    v = vnaproperty_get(root, "foo");
    CHECK(v != NULL && str_eq(v, "bar"), "a refused set_subtree changes nothing");
    CHECK(vnaproperty_count(root, ".") == 1, "no key is created by a refused set_subtree");
    errno = 0;
    rc = vnaproperty_set(&root, "foo{}=x");
    CHECK(rc == -1 && errno == EINVAL, "a value cannot be assigned to a map expression");
    v = vnaproperty_get(root, "foo");
    CHECK(v != NULL && str_eq(v, "bar"), "and the scalar is not replaced by an empty map first");
#elif DESC_CASE == 15
    {
	/* copy preserves the LENGTH of a list whose last element is null (list built with the container functions) */
	vnaproperty_t *lst = list_alloc(), *copy = NULL;
	vnaproperty_t **slot;

	ASSUME(lst != NULL);
	slot = list_append(lst);
	ASSUME(slot != NULL);
	*slot = scalar_alloc("a");
	ASSUME(*slot != NULL);
	slot = list_append(lst);			/* stays null */
	ASSUME(slot != NULL);
	CHECK(vnaproperty_count(lst, ".") == 2, "two elements, the last one null");
	rc = vnaproperty_copy(&copy, lst);
	REACH("copy of a list with a trailing null returned");
	CHECK(rc == 0, "copy succeeds");
	CHECK(copy != NULL && copy->vpr_type == VNAPROPERTY_LIST && list_count(copy) == 2,
		"the copy has the same number of elements, trailing null included");
	(void)vnaproperty_delete(&copy, ".");
	(void)vnaproperty_delete(&lst, ".");
    }
#elif DESC_CASE == 11
    {
	vnaproperty_t *copy = NULL;

	CHECK(vnaproperty_set_subtree(&root, "e{}") != NULL, "an empty map can be created");
	CHECK(vnaproperty_set_subtree(&root, "l[]") != NULL, "an empty list can be created");
	CHECK(vnaproperty_type(root, "e") == 'm' && vnaproperty_count(root, "e") == 0 &&
		vnaproperty_type(root, "l") == 'l' && vnaproperty_count(root, "l") == 0, "both are there and empty");
	rc = vnaproperty_copy(&copy, root);
	REACH("copy returned");
	CHECK(rc == 0, "copy succeeds");
	CHECK(vnaproperty_count(copy, ".") == 3, "the copy has the same three keys");
	v = vnaproperty_get(copy, "foo");
	CHECK(v != NULL && str_eq(v, "bar"), "scalars are copied");
	CHECK(vnaproperty_type(copy, "e") == 'm' && vnaproperty_count(copy, "e") == 0,
		"an empty map is copied as an empty map");
	CHECK(vnaproperty_type(copy, "l") == 'l' && vnaproperty_count(copy, "l") == 0,
		"an empty list is copied as an empty list");
	(void)vnaproperty_delete(&copy, ".");
    }
#endif
    (void)sub; (void)v;
    (void)vnaproperty_delete(&root, ".");
    CHECK(root == NULL, "deleting the root empties the tree");
    /* --memory-leak-check */
}
#endif

#ifdef H_EXPORT
/*
 * The YAML exporter used by vnacal_save / vnadata_save for property trees,
 * against the pairing contract with the importer: the importer hands every
 * mapping key to the descriptor parser, so the exporter must write each key
 * in the quoted form that, read as a descriptor, addresses exactly that key
 * (vnaproperty_quote_key).  libyaml's document functions are a RECORDING
 * model (assumed contract: the document is the tree of the add/append calls).
 */
#define XN 12
#define XT 16
static struct { int kind; char text[XT]; int nchild; int child[6]; } xnode[XN + 1];
static int xnodes;

static int x_new(int kind)
{
    CHECK(xnodes < XN, "infra: document model too small");
    if (xnodes >= XN)
	return 0;
    ++xnodes;
    xnode[xnodes].kind = kind;
    xnode[xnodes].nchild = 0;
    xnode[xnodes].text[0] = 0;
    return xnodes;
}
int yaml_document_add_scalar(yaml_document_t *document, const yaml_char_t *tag,
	const yaml_char_t *value, int length, yaml_scalar_style_t style)
{
    int id = x_new(1);

    (void)document; (void)tag; (void)style;
    if (id != 0) {
	for (int i = 0; i < XT - 1; ++i) {
	    if (i >= length)
		break;
	    xnode[id].text[i] = (char)value[i];
	    xnode[id].text[i + 1] = 0;
	}
    }
    return id;
}
int yaml_document_add_sequence(yaml_document_t *document, const yaml_char_t *tag, yaml_sequence_style_t style)
{
    (void)document; (void)tag; (void)style;
    return x_new(2);
}
int yaml_document_add_mapping(yaml_document_t *document, const yaml_char_t *tag, yaml_mapping_style_t style)
{
    (void)document; (void)tag; (void)style;
    return x_new(3);
}
int yaml_document_append_sequence_item(yaml_document_t *document, int sequence, int item)
{
    (void)document;
    CHECK(sequence >= 1 && sequence <= xnodes && xnode[sequence].kind == 2 && item >= 1 && item <= xnodes &&
	    xnode[sequence].nchild < 6, "append_sequence_item: nodes of this document");
    xnode[sequence].child[xnode[sequence].nchild++] = item;
    return 1;
}
int yaml_document_append_mapping_pair(yaml_document_t *document, int mapping, int key, int value)
{
    (void)document;
    CHECK(mapping >= 1 && mapping <= xnodes && xnode[mapping].kind == 3 && key >= 1 && key <= xnodes &&
	    value >= 1 && value <= xnodes && xnode[mapping].nchild + 1 < 6, "append_mapping_pair: nodes of this document");
    xnode[mapping].child[xnode[mapping].nchild++] = key;
    xnode[mapping].child[xnode[mapping].nchild++] = value;
    return 1;
}

void h_export_keys(void)
{
    vnaproperty_t *root = NULL;
    vnaproperty_yaml_t vyml;
    yaml_document_t *doc = malloc(1);		/* opaque to the code under test */
    const char *v;
    char *q;
    int id, k0, v0, k1, v1;

    ASSUME(doc != NULL);
    CHECK(vnaproperty_set(&root, "a\\.b=v") == 0, "a key with a dot can be set when quoted");
    CHECK(vnaproperty_set(&root, "plain=w") == 0, "a plain key");
    (void)memset((void *)&vyml, 0, sizeof(vyml));
    vyml.vyml_document = doc;
    vyml.vyml_filename = "f";
    xnodes = 0;
    id = _vnaproperty_yaml_export(&vyml, root);
    REACH("export returned");
    CHECK(id >= 1 && id <= xnodes && xnode[id].kind == 3 && xnode[id].nchild == 4,
	    "the map is exported as one mapping with a pair per key");
    k0 = xnode[id].child[0]; v0 = xnode[id].child[1];
    k1 = xnode[id].child[2]; v1 = xnode[id].child[3];
    CHECK(xnode[k0].kind == 1 && xnode[v0].kind == 1 && str_eq(xnode[v0].text, "v") &&
	    xnode[k1].kind == 1 && xnode[v1].kind == 1 && str_eq(xnode[v1].text, "w"), "keys and values are scalars, in insertion order");
    q = vnaproperty_quote_key("a.b");
    CHECK(q != NULL && str_eq(xnode[k0].text, q), "a key is written in its quoted form (what the importer's descriptor parser needs)");
    free(q);
    CHECK(str_eq(xnode[k1].text, "plain"), "a key that needs no quoting is written as it is");
    /* the pairing itself: read back as a descriptor, the written key addresses the same entry */
    v = vnaproperty_get(root, "%s", xnode[k0].text);
    CHECK(v != NULL && str_eq(v, "v"), "the written key, used as a descriptor, finds that key's value");
    CHECK(vnaproperty_count(root, ".") == 2, "exporting changes nothing");
    free(doc);
    (void)vnaproperty_delete(&root, ".");
    /* --memory-leak-check: the exporter frees its key vector and quoted keys */
}
#endif

#ifdef VERIF_NATIVE
int main(void) { HARNESS(); return 0; }
#endif

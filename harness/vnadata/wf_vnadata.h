/*
 * wf_vnadata.h -- representation invariant, abstract view and "arbitrary
 * well-formed object" constructor for vnadata_internal_t.
 *
 * The invariant is derived from vnadata_alloc.c (allocation discipline and
 * the comment "Cells beyond the current frequencies, cells or ports values
 * are always filled with initial values") and is what every public vnadata_*
 * operation must re-establish (checked by every harness that includes this
 * file); the view is what the public getters are specified against.
 *
 * Shape bounds (compile time, overridable with -D):
 *   logical   rows, columns <= VD_R_MAX, frequencies <= VD_F_MAX
 *   allocated ports <= VD_PA_MAX, cells <= VD_MA_MAX, freqs <= VD_FA_MAX
 * Everything else (all values, all indices, type, mode, which allocation
 * exceeds the logical size and by how much) is symbolic.
 */
#ifndef WF_VNADATA_H
#define WF_VNADATA_H

#include <errno.h>
#include <math.h>
#include <complex.h>
#include <stdlib.h>
#include <string.h>
#include "verif.h"
#include "verif_err.h"
#include <vnadata.h>
#include <vnadata_internal.h>

#ifndef VD_R_MAX
#define VD_R_MAX	3
#endif
#ifndef VD_F_MAX
#define VD_F_MAX	3
#endif
#ifndef VD_PA_MAX
#define VD_PA_MAX	(VD_R_MAX + 1)
#endif
#ifndef VD_MA_MAX
#define VD_MA_MAX	(VD_R_MAX * VD_R_MAX + 1)
#endif
#ifndef VD_FA_MAX
#define VD_FA_MAX	(VD_F_MAX + 1)
#endif
#define VD_M_MAX	(VD_R_MAX * VD_R_MAX)

typedef double complex cell_t;

static inline int vd_max(int a, int b) { return a > b ? a : b; }
static inline int vd_min(int a, int b) { return a < b ? a : b; }

/* the initial values named by the property: 0, 0, 50 ohm */
static inline _Bool vd_is_zero_cell(cell_t c)
{
    cell_t z = 0.0;
    return SAME_BITS(c, z);
}
static inline _Bool vd_is_default_z0(cell_t c)
{
    cell_t z = VNADATA_DEFAULT_Z0;
    return SAME_BITS(c, z);
}
static inline _Bool vd_is_zero_freq(double f)
{
    double z = 0.0;
    return SAME_BITS(f, z);
}

/*
 * vd_type_ok: the type/dimension rule of the documentation (vnadata(3)):
 * UNDEF any; S,Z,Y square; T,U,H,G,A,B 2x2; Zin row vector.
 */
static inline _Bool vd_type_ok(int type, int rows, int columns)
{
    switch (type) {
    case VPT_UNDEF:
	return 1;
    case VPT_S: case VPT_Z: case VPT_Y:
	return rows == columns;
    case VPT_T: case VPT_U: case VPT_H: case VPT_G: case VPT_A: case VPT_B:
	return rows == 2 && columns == 2;
    case VPT_ZIN:
	return rows == 1;
    default:
	return 0;
    }
}

/*
 * "pointer is NULL iff the allocation count is 0".  After a failed
 * allocation (C12 only, -DWF_AFTER_FAULT) a block may already have been
 * extended while its count was not: then only "count != 0 => valid block".
 */
#ifdef WF_AFTER_FAULT
#define WF_NULL_IFF_ZERO(p, n)	((n) != 0 && (p) == NULL)
#else
#define WF_NULL_IFF_ZERO(p, n)	(((p) == NULL) != ((n) == 0))
#endif

/*
 * wf_vnadata: the representation invariant.
 */
static _Bool wf_vnadata(const vnadata_internal_t *vdip)
{
    const vnadata_t *vdp = &vdip->vdi_vd;
    int rows = vdp->vd_rows, columns = vdp->vd_columns;
    int freqs = vdp->vd_frequencies;
    int pa = vdip->vdi_p_allocation;
    int ma = vdip->vdi_m_allocation;
    int fa = vdip->vdi_f_allocation;
    int ports = vd_max(rows, columns);
    _Bool fz0 = (vdip->vdi_flags & VF_PER_F_Z0) != 0;

    if (vdip->vdi_magic != VDI_MAGIC)
	return 0;
    if ((vdip->vdi_flags & ~(uint32_t)VF_PER_F_Z0) != 0)
	return 0;
    if (rows < 0 || columns < 0 || freqs < 0)
	return 0;
    if (rows > VD_PA_MAX || columns > VD_PA_MAX)	/* keeps r*c small */
	return 0;
    if (!vd_type_ok((int)vdp->vd_type, rows, columns))
	return 0;
    if (vdip->vdi_fprecision < 1 || vdip->vdi_dprecision < 1)
	return 0;
    if (pa < ports || ma < rows * columns || fa < freqs)
	return 0;
    if (pa > VD_PA_MAX || ma > VD_MA_MAX || fa > VD_FA_MAX) /* shape bound */
	return 0;

    /* frequency vector: fa doubles, NULL iff fa == 0, slack holds 0 */
    if (WF_NULL_IFF_ZERO(vdp->vd_frequency_vector, fa))
	return 0;
    if (fa != 0 && !VERIF_OBJ_SIZE_GE(vdp->vd_frequency_vector,
		fa * sizeof(double)))
	return 0;
    for (int f = 0; f < VD_FA_MAX; ++f) {
	if (f >= freqs && f < fa &&
		!vd_is_zero_freq(vdp->vd_frequency_vector[f]))
	    return 0;
    }

    /* data: fa pointers, each ma cells (NULL iff ma == 0), slack holds 0 */
    if (WF_NULL_IFF_ZERO(vdp->vd_data, fa))
	return 0;
    if (fa != 0 && !VERIF_OBJ_SIZE_GE(vdp->vd_data, fa * sizeof(cell_t *)))
	return 0;
    for (int f = 0; f < VD_FA_MAX; ++f) {
	if (f < fa) {
	    cell_t *m = vdp->vd_data[f];

	    if ((m == NULL) != (ma == 0))
		return 0;
	    if (ma != 0 && !VERIF_OBJ_SIZE_GE(m, ma * sizeof(cell_t)))
		return 0;
	    for (int k = 0; k < VD_MA_MAX; ++k) {
		if (k < ma && (f >= freqs || k >= rows * columns) &&
			!vd_is_zero_cell(m[k]))
		    return 0;
	    }
	}
    }

    /* reference impedances */
    if (!fz0) {
	const cell_t *z = vdip->vdi_z0_vector;

	if ((z == NULL) != (pa == 0))
	    return 0;
	if (pa != 0 && !VERIF_OBJ_SIZE_GE(z, pa * sizeof(cell_t)))
	    return 0;
	for (int p = 0; p < VD_PA_MAX; ++p) {
	    if (p >= ports && p < pa && !vd_is_default_z0(z[p]))
		return 0;
	}
    } else {
	cell_t **zz = vdip->vdi_z0_vector_vector;

	if (WF_NULL_IFF_ZERO(zz, fa))
	    return 0;
	if (fa != 0 && !VERIF_OBJ_SIZE_GE(zz, fa * sizeof(cell_t *)))
	    return 0;
	for (int f = 0; f < VD_FA_MAX; ++f) {
	    if (f < fa) {
		cell_t *z = zz[f];

		if ((z == NULL) != (pa == 0))
		    return 0;
		if (pa != 0 && !VERIF_OBJ_SIZE_GE(z, pa * sizeof(cell_t)))
		    return 0;
		for (int p = 0; p < VD_PA_MAX; ++p) {
		    if (p < pa && (f >= freqs || p >= ports) &&
			    !vd_is_default_z0(z[p]))
			return 0;
		}
	    }
	}
    }
    return 1;
}

/*
 * Abstract view: what the public getters can observe.
 */
typedef struct vd_view {
    int		type, rows, columns, freqs;
    _Bool	fz0;
    double	freq[VD_FA_MAX];
    cell_t	data[VD_FA_MAX][VD_MA_MAX];
    cell_t	z0[VD_PA_MAX];			/* !fz0 */
    cell_t	fz0v[VD_FA_MAX][VD_PA_MAX];	/* fz0 */
    /* frame: fields no vnadata_* data operation may change */
    uint32_t	magic;
    vnaerr_error_fn_t *error_fn;
    void	*error_arg;
    int		filetype, format_count, fprecision, dprecision;
    void	*format_vector;
    char	*format_string;
} vd_view_t;

static void vd_view_of(const vnadata_internal_t *vdip, vd_view_t *v)
{
    const vnadata_t *vdp = &vdip->vdi_vd;
    int ports = vd_max(vdp->vd_rows, vdp->vd_columns);
    int cells = vdp->vd_rows * vdp->vd_columns;

    v->type    = (int)vdp->vd_type;
    v->rows    = vdp->vd_rows;
    v->columns = vdp->vd_columns;
    v->freqs   = vdp->vd_frequencies;
    v->fz0     = (vdip->vdi_flags & VF_PER_F_Z0) != 0;
    for (int f = 0; f < VD_FA_MAX; ++f) {
	v->freq[f] = 0.0;
	if (f < v->freqs)
	    v->freq[f] = vdp->vd_frequency_vector[f];
	for (int k = 0; k < VD_MA_MAX; ++k) {
	    v->data[f][k] = 0.0;
	    if (f < v->freqs && k < cells)
		v->data[f][k] = vdp->vd_data[f][k];
	}
	for (int p = 0; p < VD_PA_MAX; ++p) {
	    v->fz0v[f][p] = VNADATA_DEFAULT_Z0;
	    if (v->fz0 && f < v->freqs && p < ports)
		v->fz0v[f][p] = vdip->vdi_z0_vector_vector[f][p];
	}
    }
    for (int p = 0; p < VD_PA_MAX; ++p) {
	v->z0[p] = VNADATA_DEFAULT_Z0;
	if (!v->fz0 && p < ports)
	    v->z0[p] = vdip->vdi_z0_vector[p];
    }
    v->magic	     = vdip->vdi_magic;
    v->error_fn	     = vdip->vdi_error_fn;
    v->error_arg     = vdip->vdi_error_arg;
    v->filetype	     = (int)vdip->vdi_filetype;
    v->format_count  = vdip->vdi_format_count;
    v->fprecision    = vdip->vdi_fprecision;
    v->dprecision    = vdip->vdi_dprecision;
    v->format_vector = (void *)vdip->vdi_format_vector;
    v->format_string = vdip->vdi_format_string;
}

static _Bool vd_frame_same(const vd_view_t *a, const vd_view_t *b)
{
    return a->magic == b->magic && a->error_fn == b->error_fn &&
	a->error_arg == b->error_arg && a->filetype == b->filetype &&
	a->format_count == b->format_count &&
	a->fprecision == b->fprecision && a->dprecision == b->dprecision &&
	a->format_vector == b->format_vector &&
	a->format_string == b->format_string;
}

/* whole-view equality ("observably unchanged") */
static _Bool vd_view_same(const vd_view_t *a, const vd_view_t *b)
{
    if (a->type != b->type || a->rows != b->rows ||
	    a->columns != b->columns || a->freqs != b->freqs ||
	    a->fz0 != b->fz0)
	return 0;
    for (int f = 0; f < VD_FA_MAX; ++f) {
	if (!SAME_BITS(a->freq[f], b->freq[f]))
	    return 0;
	for (int k = 0; k < VD_MA_MAX; ++k)
	    if (!SAME_BITS(a->data[f][k], b->data[f][k]))
		return 0;
	for (int p = 0; p < VD_PA_MAX; ++p)
	    if (!SAME_BITS(a->fz0v[f][p], b->fz0v[f][p]))
		return 0;
    }
    for (int p = 0; p < VD_PA_MAX; ++p)
	if (!SAME_BITS(a->z0[p], b->z0[p]))
	    return 0;
    return vd_frame_same(a, b);
}

/*
 * mk_vnadata_build: build ANY object satisfying wf_vnadata (within the
 * shape bounds) from the given input values.  Allocations are made exactly
 * as large as the recorded allocation counts (the tightest object the
 * invariant admits: the library never inspects an object's size, so a larger
 * block can only make a bounds obligation easier).
 */
static vnadata_internal_t *mk_vnadata_build(int type, int rows, int columns,
	int freqs, int pa, int ma, int fa, _Bool fz0, _Bool with_error_fn,
	int fprecision, int dprecision,
	const double *freq_in, const double *data_in, const double *z0_in)
{
    vnadata_internal_t *vdip;
    vnadata_t *vdp;
    int ports = vd_max(rows, columns);

    /*
     * Optional concrete shape (driver enumerates these with -DVD_FIX_*):
     * the assumption keeps the named input consistent for replay, the
     * assignment lets symex propagate the constant.
     */
#define VD_FIX(var, val) do { ASSUME(var == (val)); var = (val); } while (0)
#ifdef VD_FIX_ROWS
    VD_FIX(rows, VD_FIX_ROWS);
#endif
#ifdef VD_FIX_COLUMNS
    VD_FIX(columns, VD_FIX_COLUMNS);
#endif
#ifdef VD_FIX_FREQS
    VD_FIX(freqs, VD_FIX_FREQS);
#endif
#ifdef VD_FIX_PA
    VD_FIX(pa, VD_FIX_PA);
#endif
#ifdef VD_FIX_MA
    VD_FIX(ma, VD_FIX_MA);
#endif
#ifdef VD_FIX_FA
    VD_FIX(fa, VD_FIX_FA);
#endif
#ifdef VD_FIX_FZ0
    VD_FIX(fz0, VD_FIX_FZ0);
#endif
    ASSUME(rows >= 0 && rows <= VD_R_MAX);
    ASSUME(columns >= 0 && columns <= VD_R_MAX);
    ASSUME(freqs >= 0 && freqs <= VD_F_MAX);
    ASSUME(vd_type_ok(type, rows, columns));
    ASSUME(pa >= ports && pa <= VD_PA_MAX);
    ASSUME(ma >= rows * columns && ma <= VD_MA_MAX);
    ASSUME(fa >= freqs && fa <= VD_FA_MAX);
    ASSUME(fprecision >= 1 && dprecision >= 1);

    vdip = malloc(sizeof(*vdip));
    ASSUME(vdip != NULL);
    (void)memset((void *)vdip, 0, sizeof(*vdip));
    vdp = &vdip->vdi_vd;
    vdip->vdi_magic = VDI_MAGIC;
    vdip->vdi_flags = fz0 ? VF_PER_F_Z0 : 0;
    vdip->vdi_error_fn = with_error_fn ? verif_error_fn : NULL;
    vdip->vdi_error_arg = NULL;
    vdip->vdi_p_allocation = pa;
    vdip->vdi_m_allocation = ma;
    vdip->vdi_f_allocation = fa;
    vdip->vdi_filetype = VNADATA_FILETYPE_AUTO;
    vdip->vdi_format_vector = NULL;
    vdip->vdi_format_count = 0;
    vdip->vdi_format_string = NULL;
    vdip->vdi_fprecision = fprecision;
    vdip->vdi_dprecision = dprecision;
    vdp->vd_type = (vnadata_parameter_type_t)type;
    vdp->vd_rows = rows;
    vdp->vd_columns = columns;
    vdp->vd_frequencies = freqs;
    vdp->vd_frequency_vector = NULL;
    vdp->vd_data = NULL;

    if (fa != 0) {
	vdp->vd_frequency_vector = malloc(fa * sizeof(double));
	vdp->vd_data = malloc(fa * sizeof(cell_t *));
	ASSUME(vdp->vd_frequency_vector != NULL && vdp->vd_data != NULL);
    }
    for (int f = 0; f < VD_FA_MAX; ++f) {
	if (f < fa) {
	    vdp->vd_frequency_vector[f] = f < freqs ? freq_in[f] : 0.0;
	    vdp->vd_data[f] = NULL;
	    if (ma != 0) {
		cell_t *m = malloc(ma * sizeof(cell_t));

		ASSUME(m != NULL);
		for (int k = 0; k < VD_MA_MAX; ++k) {
		    if (k < ma)
			m[k] = (f < freqs && k < rows * columns) ?
			    data_in[f * VD_MA_MAX + k] : 0.0;
		}
		vdp->vd_data[f] = m;
	    }
	}
    }
    if (!fz0) {
	vdip->vdi_z0_vector = NULL;
	if (pa != 0) {
	    cell_t *z = malloc(pa * sizeof(cell_t));

	    ASSUME(z != NULL);
	    for (int p = 0; p < VD_PA_MAX; ++p) {
		if (p < pa)
		    z[p] = p < ports ? z0_in[p] : VNADATA_DEFAULT_Z0;
	    }
	    vdip->vdi_z0_vector = z;
	}
    } else {
	vdip->vdi_z0_vector_vector = NULL;
	if (fa != 0) {
	    cell_t **zz = malloc(fa * sizeof(cell_t *));

	    ASSUME(zz != NULL);
	    for (int f = 0; f < VD_FA_MAX; ++f) {
		if (f < fa) {
		    zz[f] = NULL;
		    if (pa != 0) {
			cell_t *z = malloc(pa * sizeof(cell_t));

			ASSUME(z != NULL);
			for (int p = 0; p < VD_PA_MAX; ++p) {
			    if (p < pa)
				z[p] = (f < freqs && p < ports) ?
				    z0_in[f * VD_PA_MAX + p] :
				    VNADATA_DEFAULT_Z0;
			}
			zz[f] = z;
		    }
		}
	    }
	    vdip->vdi_z0_vector_vector = zz;
	}
    }
    return vdip;
}

/*
 * MK_VNADATA(var, pfx): declare the symbolic inputs (named pfx_*) and build.
 */
#define MK_VNADATA(var, pfx) \
    IN(int, pfx##_type); IN(int, pfx##_rows); IN(int, pfx##_columns); \
    IN(int, pfx##_freqs); IN(int, pfx##_pa); IN(int, pfx##_ma); \
    IN(int, pfx##_fa); IN(bool, pfx##_fz0); IN(bool, pfx##_errfn); \
    IN(int, pfx##_fprec); IN(int, pfx##_dprec); \
    IN_ARR(double, pfx##_freq, VD_FA_MAX); \
    IN_ARR(double, pfx##_data, VD_FA_MAX * VD_MA_MAX); \
    IN_ARR(double, pfx##_z0, VD_FA_MAX * VD_PA_MAX); \
    vnadata_internal_t *var = mk_vnadata_build(pfx##_type, pfx##_rows, \
	    pfx##_columns, pfx##_freqs, pfx##_pa, pfx##_ma, pfx##_fa, \
	    pfx##_fz0, pfx##_errfn, pfx##_fprec, pfx##_dprec, \
	    pfx##_freq, pfx##_data, pfx##_z0)

/* ghost error bookkeeping at harness start */
static inline void ghost_err_reset(void)
{
    ghost_err_calls = 0;
    ghost_err_fn_calls = 0;
    ghost_err_category = -1;
}

/*
 * Documented failure behaviour of an argument-refusing call (C11/C15):
 * exactly one error report of class USAGE, errno EINVAL.
 */
#define CHECK_REFUSED_USAGE(what) \
    do { \
	CHECK(ghost_err_calls == 1, what ": refused call reports exactly once"); \
	CHECK(ghost_err_category == VNAERR_USAGE, what ": error class is USAGE"); \
	CHECK(errno == EINVAL, what ": errno is EINVAL"); \
    } while (0)
#define CHECK_SILENT(what) \
    CHECK(ghost_err_calls == 0, what ": successful call reports no error")

#endif /* WF_VNADATA_H */

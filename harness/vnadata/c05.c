/*
 * C05 harness: the real vnadata_convert with every vnaconv_* function
 * replaced by a recording contract (generated from vnaconv.h).  Checked:
 * the function invoked for (from, to) is the one NAMED for that pair, once
 * per frequency, on that frequency's matrix, with that frequency's
 * reference impedances; refused conversions leave the output untouched;
 * everything else is carried over; the result is a well-formed object
 * (which includes: after conversion to Zin every cell beyond 1 x ports holds
 * its initial value, so later resizes see a fresh 1 x ports object).
 */
#include "wf_vnadata.h"
#include "conv_rec.h"

int conv_calls;
int conv_code[CONV_REC_MAX];
const void *conv_in[CONV_REC_MAX];
void *conv_out[CONV_REC_MAX];
const void *conv_z0[CONV_REC_MAX];
int conv_n[CONV_REC_MAX];

void conv_record(int code, const void *in, void *out, const void *z0, int n, int out_cells)
{
    cell_t *o = out;

    if (conv_calls < CONV_REC_MAX) {
	conv_code[conv_calls] = code;
	conv_in[conv_calls] = in;
	conv_out[conv_calls] = out;
	conv_z0[conv_calls] = z0;
	conv_n[conv_calls] = n;
    }
    ++conv_calls;
    for (int k = 0; k < VD_MA_MAX; ++k)
	if (k < out_cells)
	    o[k] = 7.0;			/* "the converted values" */
}

/* ASSUMED CONTRACT: the format string of a well-formed object is accepted (C06 territory) */
int vnadata_set_format(vnadata_t *vdp, const char *format)
{
    (void)vdp; (void)format;
    return 0;
}

static const char type_letter[] = "?stuzyhgabI";

void h_convert(void)
{
    MK_VNADATA(in, a);
#ifdef H_INPLACE
    vnadata_internal_t *out = in;
#else
    /* an unrelated destination object, built through the real API */
    IN(double, b_cell);
    IN(double, b_z0);
    vnadata_t *outp = vnadata_alloc(verif_error_fn, NULL);
    vnadata_internal_t *out;
    ASSUME(outp != NULL);
    out = VDP_TO_VDIP(outp);
    ASSUME(vnadata_init(outp, VPT_S, 1, 1, 1) == 0);
    outp->vd_data[0][0] = b_cell;
    out->vdi_z0_vector[0] = b_z0;
#endif
    IN(int, newtype);
    IN(int, g_f);
    IN(int, g_p);
    vd_view_t pre_in, pre_out, post_out;
    int from, ports, rc;

#ifdef H_FROM
    /* concrete type pair (out-of-place runs: keeps every allocation size concrete) */
    ASSUME(in->vdi_vd.vd_type == H_FROM);
    in->vdi_vd.vd_type = H_FROM;
    VD_FIX(newtype, H_TO);
#endif
    vd_view_of(in, &pre_in);
    vd_view_of(out, &pre_out);
    from = pre_in.type;
    ports = vd_max(pre_in.rows, pre_in.columns);
    conv_calls = 0;
    ghost_err_reset();

    rc = vnadata_convert(&in->vdi_vd, &out->vdi_vd,
	    (vnadata_parameter_type_t)newtype);

    vd_view_of(out, &post_out);
    REACH("convert returned");
    CHECK(rc == 0 || rc == -1, "convert returns 0 or -1");
    CHECK(wf_vnadata(out), "convert: output object well formed (type/dimension rule, "
	    "cells beyond the logical size hold initial values)");
    CHECK(wf_vnadata(in), "convert: input object well formed");
    if (rc == -1) {
	REACH("convert refused");
	CHECK(vd_view_same(&pre_out, &post_out),
		"a refused conversion does not modify the output");
	CHECK(conv_calls == 0, "a refused conversion converts nothing");
	CHECK_REFUSED_USAGE("convert");
    } else {
	REACH("convert accepted");
	CHECK_SILENT("convert");
	CHECK(newtype >= 0 && newtype < VPT_NTYPES, "accepted type is a type");
	CHECK(post_out.type == newtype, "result has the requested type");
	CHECK(post_out.freqs == pre_in.freqs, "frequencies carried over");
	if (newtype == VPT_ZIN && from != VPT_ZIN)
	    CHECK(post_out.rows == 1 && post_out.columns == ports,
		    "conversion to input impedances yields a 1 x ports object");
	else
	    CHECK(post_out.rows == pre_in.rows &&
		    post_out.columns == pre_in.columns, "dimensions carried over");
	if (pre_in.freqs > 0)	/* with no frequency there is no per-frequency impedance to carry */
	    CHECK(post_out.fz0 == pre_in.fz0, "z0 mode carried over");
	if (g_f >= 0 && g_f < pre_in.freqs) {
	    CHECK(SAME_BITS(post_out.freq[g_f], pre_in.freq[g_f]),
		    "frequency values carried over");
	    if (pre_in.fz0 && g_p >= 0 && g_p < ports)
		CHECK(SAME_BITS(post_out.fz0v[g_f][g_p], pre_in.fz0v[g_f][g_p]),
			"per-frequency impedances carried over");
	}
	if (!pre_in.fz0 && g_p >= 0 && g_p < ports)
	    CHECK(SAME_BITS(post_out.z0[g_p], pre_in.z0[g_p]),
		    "impedances carried over");
	CHECK(out->vdi_fprecision == in->vdi_fprecision &&
		out->vdi_dprecision == in->vdi_dprecision &&
		out->vdi_filetype == in->vdi_filetype,
		"precisions and file type carried over");
	if (newtype == from) {
	    CHECK(conv_calls == 0, "same type: nothing to convert");
	    if (g_f >= 0 && g_f < pre_in.freqs)
		for (int k = 0; k < VD_MA_MAX; ++k)
		    if (k < pre_in.rows * pre_in.columns)
			CHECK(SAME_BITS(post_out.data[g_f][k], pre_in.data[g_f][k]),
				"same type: data copied unchanged");
	} else {
	    int want2 = CONV_CODE(type_letter[from], type_letter[newtype], 0);
	    int wantn = CONV_CODE(type_letter[from], type_letter[newtype], 1);

	    REACH("convert called a conversion function");
	    CHECK(conv_calls == pre_in.freqs,
		    "the conversion function runs once per frequency");
	    if (g_f >= 0 && g_f < pre_in.freqs && g_f < CONV_REC_MAX) {
		CHECK(conv_code[g_f] == wantn ||
			(conv_code[g_f] == want2 && pre_in.rows == 2 && pre_in.columns == 2),
			"the function applied is the vnaconv function NAMED for this "
			"pair of types (two-port form only for 2x2 input)");
		CHECK(conv_in[g_f] == (const void *)in->vdi_vd.vd_data[g_f] &&
			conv_out[g_f] == (void *)out->vdi_vd.vd_data[g_f],
			"it is applied to that frequency's input and output matrices");
		CHECK(conv_z0[g_f] == NULL || conv_z0[g_f] == (const void *)
			(pre_in.fz0 ? in->vdi_z0_vector_vector[g_f] : in->vdi_z0_vector),
			"with that frequency's reference impedances of the input");
		CHECK(conv_code[g_f] == want2 || conv_n[g_f] == pre_in.rows,
			"with the input's port count");
	    }
	}
    }
#ifndef H_INPLACE
    vnadata_free(&out->vdi_vd);
#endif
    vnadata_free(&in->vdi_vd);
}

#ifdef VERIF_NATIVE
int main(void) { HARNESS(); return 0; }
#endif

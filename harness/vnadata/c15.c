/*
 * C15 harnesses: every public vnadata_* data operation, called on an
 * arbitrary well-formed object with arbitrary arguments, (a) answers as the
 * abstract frequency x rows x columns array model of the property statement
 * predicts, (b) re-establishes wf_vnadata, (c) leaves everything else as it
 * was.  One harness function per operation; the driver selects it with
 * goto-cc --function.
 */
#include "wf_vnadata.h"

/* ------------------------------------------------------------------ resize */
void h_resize(void)
{
    MK_VNADATA(vdip, a);
    vnadata_t *vdp = &vdip->vdi_vd;
    vd_view_t pre, post;
    IN(int, type);
    IN(int, rows);
    IN(int, columns);
    IN(int, freqs);
    IN(int, g_f);
    IN(int, g_k);
    IN(int, g_p);
    int rc;
    _Bool valid;

    CHECK(wf_vnadata(vdip), "mk_vnadata builds only wf objects");
    ASSUME(rows <= VD_R_MAX && columns <= VD_R_MAX && freqs <= VD_F_MAX);
#ifdef H_FIX_NEW
    VD_FIX(rows, H_NEW_ROWS);
    VD_FIX(columns, H_NEW_COLUMNS);
    VD_FIX(freqs, H_NEW_FREQS);
#endif
    vd_view_of(vdip, &pre);
    ghost_err_reset();
    errno = 0;

    rc = vnadata_resize(vdp, (vnadata_parameter_type_t)type,
	    rows, columns, freqs);

    vd_view_of(vdip, &post);
    REACH("resize returned");
    CHECK(wf_vnadata(vdip), "resize: representation invariant preserved");
    CHECK(vd_frame_same(&pre, &post), "resize: frame unchanged");
    valid = rows >= 0 && columns >= 0 && freqs >= 0 &&
	vd_type_ok(type, rows, columns);
    CHECK(rc == (valid ? 0 : -1),
	    "resize: succeeds exactly for non-negative sizes obeying the "
	    "type/dimension rule");
    if (!valid) {
	CHECK(vd_view_same(&pre, &post),
		"resize: refused call leaves the object observably unchanged");
	CHECK_REFUSED_USAGE("resize");
    } else {
	int old_cells = pre.rows * pre.columns;
	int new_cells = rows * columns;
	int old_ports = vd_max(pre.rows, pre.columns);
	int new_ports = vd_max(rows, columns);

	REACH("resize accepted");
	CHECK_SILENT("resize");
	CHECK(post.type == type && post.rows == rows &&
		post.columns == columns && post.freqs == freqs,
		"resize: getters report the requested type and dimensions");
	CHECK(post.fz0 == pre.fz0, "resize: z0 mode unchanged");
	if (g_f >= 0 && g_f < freqs) {
	    double ef = g_f < pre.freqs ? pre.freq[g_f] : 0.0;

	    CHECK(SAME_BITS(post.freq[g_f], ef),
		    "resize: kept frequencies preserved, new ones are 0");
	    if (g_k >= 0 && g_k < new_cells) {
		cell_t ec = (g_f < pre.freqs && g_k < old_cells) ?
		    pre.data[g_f][g_k] : (cell_t)0.0;

		CHECK(SAME_BITS(post.data[g_f][g_k], ec),
			"resize: kept cells preserved, newly exposed cells "
			"are 0");
	    }
	    if (pre.fz0 && g_p >= 0 && g_p < new_ports) {
		cell_t ez = (g_f < pre.freqs && g_p < old_ports) ?
		    pre.fz0v[g_f][g_p] : (cell_t)VNADATA_DEFAULT_Z0;

		CHECK(SAME_BITS(post.fz0v[g_f][g_p], ez),
			"resize: kept per-frequency z0 preserved, newly "
			"exposed ones are 50 ohm");
	    }
	}
	if (!pre.fz0 && g_p >= 0 && g_p < new_ports) {
	    cell_t ez = g_p < old_ports ? pre.z0[g_p] :
		(cell_t)VNADATA_DEFAULT_Z0;

	    CHECK(SAME_BITS(post.z0[g_p], ez),
		    "resize: kept z0 preserved, newly exposed ones are "
		    "50 ohm");
	}
    }
    vnadata_free(&vdip->vdi_vd);	/* and the result can be freed: no leak */
}


/* -------------------------------------------------------------------- init */
void h_init(void)
{
    MK_VNADATA(vdip, a);
    vnadata_t *vdp = &vdip->vdi_vd;
    vd_view_t pre, post;
    IN(int, type);
    IN(int, rows);
    IN(int, columns);
    IN(int, freqs);
    IN(int, g_f);
    IN(int, g_k);
    IN(int, g_p);
    int rc;
    _Bool valid;

    ASSUME(rows <= VD_R_MAX && columns <= VD_R_MAX && freqs <= VD_F_MAX);
#ifdef H_FIX_NEW
    VD_FIX(rows, H_NEW_ROWS);
    VD_FIX(columns, H_NEW_COLUMNS);
    VD_FIX(freqs, H_NEW_FREQS);
#endif
    vd_view_of(vdip, &pre);
    ghost_err_reset();

    rc = vnadata_init(vdp, (vnadata_parameter_type_t)type,
	    rows, columns, freqs);

    vd_view_of(vdip, &post);
    REACH("init returned");
    CHECK(wf_vnadata(vdip), "init: representation invariant preserved");
    CHECK(vd_frame_same(&pre, &post), "init: frame unchanged");
    valid = rows >= 0 && columns >= 0 && freqs >= 0 &&
	vd_type_ok(type, rows, columns);
    CHECK(rc == (valid ? 0 : -1), "init: succeeds exactly for valid arguments");
    if (valid) {
	REACH("init accepted");
	CHECK_SILENT("init");
	CHECK(post.type == type && post.rows == rows &&
		post.columns == columns && post.freqs == freqs,
		"init: getters report the requested type and dimensions");
	CHECK(!post.fz0, "init: ordinary z0 mode");
	if (g_f >= 0 && g_f < freqs) {
	    CHECK(vd_is_zero_freq(post.freq[g_f]), "init: every frequency 0");
	    if (g_k >= 0 && g_k < rows * columns)
		CHECK(vd_is_zero_cell(post.data[g_f][g_k]),
			"init: every cell 0");
	}
	if (g_p >= 0 && g_p < vd_max(rows, columns))
	    CHECK(vd_is_default_z0(post.z0[g_p]), "init: every z0 50 ohm");
    } else {
	CHECK(ghost_err_calls == 1 && ghost_err_category == VNAERR_USAGE &&
		errno == EINVAL, "init: refusal reported once as EINVAL");
	CHECK(vd_view_same(&pre, &post), "init: a refused call leaves the object as it was");
    }
    vnadata_free(&vdip->vdi_vd);	/* and the result can be freed: no leak */
}

/* ---------------------------------------------------------------- set_type */
void h_set_type(void)
{
    MK_VNADATA(vdip, a);
    vnadata_t *vdp = &vdip->vdi_vd;
    vd_view_t pre, post, expect;
    IN(int, type);
    int rc;

    vd_view_of(vdip, &pre);
    ghost_err_reset();
    rc = vnadata_set_type(vdp, (vnadata_parameter_type_t)type);
    vd_view_of(vdip, &post);
    REACH("set_type returned");
    CHECK(wf_vnadata(vdip), "set_type: representation invariant preserved");
    expect = pre;
    if (vd_type_ok(type, pre.rows, pre.columns)) {
	REACH("set_type accepted");
	CHECK(rc == 0, "set_type: consistent type accepted");
	CHECK_SILENT("set_type");
	expect.type = type;
    } else {
	REACH("set_type refused");
	CHECK(rc == -1, "set_type: inconsistent type refused");
	CHECK_REFUSED_USAGE("set_type");
    }
    CHECK(vd_view_same(&expect, &post),
	    "set_type: only the type changes, and only on success");
    CHECK(vnadata_get_type(vdp) == (vnadata_parameter_type_t)post.type &&
	    vnadata_get_rows(vdp) == post.rows &&
	    vnadata_get_columns(vdp) == post.columns &&
	    vnadata_get_frequencies(vdp) == post.freqs,
	    "dimension getters return the view");
    vnadata_free(&vdip->vdi_vd);	/* and the result can be freed: no leak */
}

/* ------------------------------------------------- cells: get/set one cell */
void h_cell(void)
{
    MK_VNADATA(vdip, a);
    vnadata_t *vdp = &vdip->vdi_vd;
    vd_view_t pre, post, expect;
    IN(int, f);
    IN(int, r);
    IN(int, c);
    IN(double, value);
    IN(bool, do_set);
    _Bool valid;

    vd_view_of(vdip, &pre);
    ghost_err_reset();
    valid = f >= 0 && f < pre.freqs && r >= 0 && r < pre.rows &&
	c >= 0 && c < pre.columns;
    expect = pre;
    if (do_set) {
	cell_t v = value;
	int rc = vnadata_set_cell(vdp, f, r, c, v);

	CHECK(rc == (valid ? 0 : -1),
		"set_cell: accepted exactly for indices inside [0,n)");
	if (valid)
	    expect.data[f][r * pre.columns + c] = v;
    } else {
	cell_t got = vnadata_get_cell(vdp, f, r, c);

	if (valid) {
	    CHECK(SAME_BITS(got, pre.data[f][r * pre.columns + c]),
		    "get_cell: returns the stored cell");
	} else {
	    CHECK(creal(got) == HUGE_VAL,
		    "get_cell: index outside [0,n) gives HUGE_VAL");
	}
    }
    vd_view_of(vdip, &post);
    REACH("cell op returned");
    if (valid) {
	REACH("cell op accepted");
	CHECK_SILENT("cell op");
    } else {
	REACH("cell op refused");
	CHECK_REFUSED_USAGE("cell op");
    }
    CHECK(wf_vnadata(vdip), "cell op: representation invariant preserved");
    CHECK(vd_view_same(&expect, &post),
	    "cell op: exactly the addressed cell changes (set), nothing (get)");
    vnadata_free(&vdip->vdi_vd);	/* and the result can be freed: no leak */
}

/* ------------------------------------------- matrix / vector forms of cells */
void h_matrix(void)
{
    MK_VNADATA(vdip, a);
    vnadata_t *vdp = &vdip->vdi_vd;
    vd_view_t pre, post, expect;
    IN(int, f);
    IN(int, r);
    IN(int, c);
    IN(int, op);
    IN_ARR(double, buf_in, VD_MA_MAX);
    cell_t buf[VD_MA_MAX];
    _Bool valid;
    int rc = 0;

    for (int i = 0; i < VD_MA_MAX; ++i)
	buf[i] = buf_in[i];
    vd_view_of(vdip, &pre);
    ghost_err_reset();
    expect = pre;
    ASSUME(op >= 0 && op <= 3);
    if (op == 0) {			/* get_matrix */
	cell_t *m = vnadata_get_matrix(vdp, f);

	valid = f >= 0 && f < pre.freqs;
	if (valid) {
	    IN(int, g_k);

	    CHECK((m == NULL) == (vdip->vdi_m_allocation == 0),
		    "get_matrix: valid index gives the matrix");
	    if (g_k >= 0 && g_k < pre.rows * pre.columns)
		CHECK(SAME_BITS(m[g_k], pre.data[f][g_k]),
			"get_matrix: row-major cells of that frequency");
	} else {
	    CHECK(m == NULL, "get_matrix: bad index gives NULL");
	}
    } else if (op == 1) {		/* set_matrix */
	valid = f >= 0 && f < pre.freqs;
	rc = vnadata_set_matrix(vdp, f, buf);
	CHECK(rc == (valid ? 0 : -1), "set_matrix: accepted iff index valid");
	if (valid) {
	    for (int k = 0; k < VD_MA_MAX; ++k)
		if (k < pre.rows * pre.columns)
		    expect.data[f][k] = buf[k];
	}
    } else if (op == 2) {		/* get_to_vector */
	cell_t out[VD_FA_MAX];

	for (int i = 0; i < VD_FA_MAX; ++i)
	    out[i] = buf[i];
	valid = r >= 0 && r < pre.rows && c >= 0 && c < pre.columns;
	rc = vnadata_get_to_vector(vdp, r, c, out);
	CHECK(rc == (valid ? 0 : -1),
		"get_to_vector: accepted iff row, column valid");
	for (int i = 0; i < VD_FA_MAX; ++i) {
	    if (valid && i < pre.freqs)
		CHECK(SAME_BITS(out[i], pre.data[i][r * pre.columns + c]),
			"get_to_vector: one cell per frequency");
	    else
		CHECK(SAME_BITS(out[i], buf[i]),
			"get_to_vector: writes nothing else");
	}
    } else {				/* set_from_vector */
	valid = r >= 0 && r < pre.rows && c >= 0 && c < pre.columns;
	rc = vnadata_set_from_vector(vdp, r, c, buf);
	CHECK(rc == (valid ? 0 : -1),
		"set_from_vector: accepted iff row, column valid");
	if (valid) {
	    for (int i = 0; i < VD_FA_MAX; ++i)
		if (i < pre.freqs)
		    expect.data[i][r * pre.columns + c] = buf[i];
	}
    }
    vd_view_of(vdip, &post);
    REACH("matrix op returned");
    if (valid) {
	REACH("matrix op accepted");
	CHECK_SILENT("matrix op");
    } else {
	REACH("matrix op refused");
	CHECK_REFUSED_USAGE("matrix op");
    }
    CHECK(wf_vnadata(vdip), "matrix op: representation invariant preserved");
    CHECK(vd_view_same(&expect, &post),
	    "matrix op: exactly the addressed cells change");
    vnadata_free(&vdip->vdi_vd);	/* and the result can be freed: no leak */
}

/* -------------------------------------------------------------- frequencies */
void h_frequency(void)
{
    MK_VNADATA(vdip, a);
    vnadata_t *vdp = &vdip->vdi_vd;
    vd_view_t pre, post, expect;
    IN(int, f);
    IN(int, op);
    IN(double, value);
    IN_ARR(double, vec, VD_FA_MAX);
    _Bool valid = 1;

    vd_view_of(vdip, &pre);
    ghost_err_reset();
    expect = pre;
    ASSUME(op >= 0 && op <= 5);
    if (op == 0) {
	double got = vnadata_get_frequency(vdp, f);

	valid = f >= 0 && f < pre.freqs;
	if (valid)
	    CHECK(SAME_BITS(got, pre.freq[f]),
		    "get_frequency: returns the stored frequency");
	else
	    CHECK(got == HUGE_VAL, "get_frequency: bad index gives HUGE_VAL");
    } else if (op == 1) {
	int rc = vnadata_set_frequency(vdp, f, value);

	valid = f >= 0 && f < pre.freqs;
	CHECK(rc == (valid ? 0 : -1), "set_frequency: accepted iff valid");
	if (valid)
	    expect.freq[f] = value;
    } else if (op == 2) {
	double got = vnadata_get_fmin(vdp);

	valid = pre.freqs > 0;
	if (valid)
	    CHECK(SAME_BITS(got, pre.freq[0]), "get_fmin: first frequency");
	else
	    CHECK(got == HUGE_VAL, "get_fmin: no frequencies gives HUGE_VAL");
    } else if (op == 3) {
	double got = vnadata_get_fmax(vdp);

	valid = pre.freqs > 0;
	if (valid)
	    CHECK(SAME_BITS(got, pre.freq[pre.freqs - 1]),
		    "get_fmax: last frequency");
	else
	    CHECK(got == HUGE_VAL, "get_fmax: no frequencies gives HUGE_VAL");
    } else if (op == 4) {
	const double *p = vnadata_get_frequency_vector(vdp);
	IN(int, g_f);

	if (g_f >= 0 && g_f < pre.freqs)
	    CHECK(p != NULL && SAME_BITS(p[g_f], pre.freq[g_f]),
		    "get_frequency_vector: the stored frequencies");
    } else {
	int rc = vnadata_set_frequency_vector(vdp, vec);

	CHECK(rc == 0, "set_frequency_vector: accepted");
	for (int i = 0; i < VD_FA_MAX; ++i)
	    if (i < pre.freqs)
		expect.freq[i] = vec[i];
    }
    vd_view_of(vdip, &post);
    REACH("frequency op returned");
    if (valid) {
	CHECK_SILENT("frequency op");
    } else {
	REACH("frequency op refused");
	CHECK_REFUSED_USAGE("frequency op");
    }
    CHECK(wf_vnadata(vdip), "frequency op: representation invariant preserved");
    CHECK(vd_view_same(&expect, &post),
	    "frequency op: exactly the addressed entries change");
    vnadata_free(&vdip->vdi_vd);	/* and the result can be freed: no leak */
}

/* ------------------------------------------------------------ add_frequency */
void h_add_frequency(void)
{
    MK_VNADATA(vdip, a);
    vnadata_t *vdp = &vdip->vdi_vd;
    vd_view_t pre, post;
    IN(double, value);
    IN(int, g_f);
    IN(int, g_k);
    IN(int, g_p);
    int rc;
    _Bool valid;

    vd_view_of(vdip, &pre);
    ghost_err_reset();
    rc = vnadata_add_frequency(vdp, value);
    REACH("add_frequency returned");
    valid = !(value < 0.0);
    CHECK(rc == (valid ? 0 : -1),
	    "add_frequency: accepted unless the frequency is negative");
    if (!valid) {
	vd_view_of(vdip, &post);
	CHECK(vd_view_same(&pre, &post), "add_frequency: refusal changes nothing");
	CHECK_REFUSED_USAGE("add_frequency");
	CHECK(wf_vnadata(vdip), "add_frequency: invariant preserved (refused)");
    } else {
	const vnadata_t *v = vdp;
	int ports = vd_max(pre.rows, pre.columns);

	REACH("add_frequency accepted");
	CHECK_SILENT("add_frequency");
	/* the allocation may now exceed the harness' view arrays: use getters */
	CHECK(v->vd_frequencies == pre.freqs + 1 && v->vd_rows == pre.rows &&
		v->vd_columns == pre.columns && (int)v->vd_type == pre.type,
		"add_frequency: one more frequency, same shape and type");
	CHECK(((vdip->vdi_flags & VF_PER_F_Z0) != 0) == pre.fz0,
		"add_frequency: z0 mode unchanged");
	CHECK(SAME_BITS(v->vd_frequency_vector[pre.freqs], value),
		"add_frequency: new entry holds the given frequency");
	if (g_f >= 0 && g_f < pre.freqs)
	    CHECK(SAME_BITS(v->vd_frequency_vector[g_f], pre.freq[g_f]),
		    "add_frequency: earlier frequencies kept");
	if (g_k >= 0 && g_k < pre.rows * pre.columns) {
	    CHECK(vd_is_zero_cell(v->vd_data[pre.freqs][g_k]),
		    "add_frequency: new cells hold 0");
	    if (g_f >= 0 && g_f < pre.freqs)
		CHECK(SAME_BITS(v->vd_data[g_f][g_k], pre.data[g_f][g_k]),
			"add_frequency: earlier cells kept");
	}
	if (g_p >= 0 && g_p < ports) {
	    if (pre.fz0) {
		CHECK(vd_is_default_z0(
			    vdip->vdi_z0_vector_vector[pre.freqs][g_p]),
			"add_frequency: new per-frequency z0 is 50 ohm");
		if (g_f >= 0 && g_f < pre.freqs)
		    CHECK(SAME_BITS(vdip->vdi_z0_vector_vector[g_f][g_p],
				pre.fz0v[g_f][g_p]),
			    "add_frequency: earlier per-frequency z0 kept");
	    } else {
		CHECK(SAME_BITS(vdip->vdi_z0_vector[g_p], pre.z0[g_p]),
			"add_frequency: z0 kept");
	    }
	}
	CHECK(wf_vnadata(vdip),
		"add_frequency: representation invariant preserved");
    }
    vnadata_free(&vdip->vdi_vd);	/* and the result can be freed: no leak */
}

/* ------------------------------------------------------------- z0 functions */
/*
 * The vector handed to a z0 vector setter may be one the object itself
 * returned (vnadata_get_fz0_vector: "use frequency g's impedances everywhere",
 * "copy frequency g's impedances to frequency f"): the values it held on entry
 * are what gets stored, also when the call switches the z0 mode and thereby
 * frees the storage the pointer points into.
 */
#define OWN_VECTOR_SOURCE() \
	IN(bool, own_vector); \
	IN(int, g_src); \
	const cell_t *src = vec; \
	if (own_vector && g_src >= 0 && g_src < pre.freqs && ports > 0) { \
	    src = vnadata_get_fz0_vector(vdp, g_src); \
	    CHECK(src != NULL, "get_fz0_vector: a valid index gives the vector"); \
	    for (int q = 0; q < VD_PA_MAX; ++q) \
		if (q < ports) \
		    vec[q] = pre.fz0 ? pre.fz0v[g_src][q] : pre.z0[q]; \
	    REACH("the object's own vector as the source"); \
	}

void h_z0(void)
{
    MK_VNADATA(vdip, a);
    vnadata_t *vdp = &vdip->vdi_vd;
    vd_view_t pre, post, expect;
    IN(int, op);
    IN(int, f);
    IN(int, port);
    IN(double, value);
    IN_ARR(double, vec_in, VD_PA_MAX);
    cell_t vec[VD_PA_MAX];
    cell_t z = value;
    int ports;
    _Bool valid = 1, silent_refusal = 0;

    for (int i = 0; i < VD_PA_MAX; ++i)
	vec[i] = vec_in[i];
    vd_view_of(vdip, &pre);
    ports = vd_max(pre.rows, pre.columns);
    ghost_err_reset();
    expect = pre;
#ifdef H_FIX_OP
    VD_FIX(op, H_FIX_OP);
#endif
    ASSUME(op >= 0 && op <= 9);
    switch (op) {
    case 0: {				/* get_z0 */
	cell_t got = vnadata_get_z0(vdp, port);

	valid = port >= 0 && port < ports && !pre.fz0;
	if (valid)
	    CHECK(SAME_BITS(got, pre.z0[port]), "get_z0: the stored z0");
	else
	    CHECK(creal(got) == HUGE_VAL,
		    "get_z0: port outside [0,ports) or per-frequency mode "
		    "gives HUGE_VAL");
	break;
    }
    case 1: {				/* set_z0 */
	int rc = vnadata_set_z0(vdp, port, z);

	valid = port >= 0 && port < ports;
	CHECK(rc == (valid ? 0 : -1),
		"set_z0: accepted exactly for ports inside [0,ports)");
	if (valid) {
	    if (pre.fz0) {		/* documented reset */
		expect.fz0 = 0;
		for (int q = 0; q < VD_PA_MAX; ++q) {
		    expect.z0[q] = VNADATA_DEFAULT_Z0;
		    for (int g = 0; g < VD_FA_MAX; ++g)
			expect.fz0v[g][q] = VNADATA_DEFAULT_Z0;
		}
	    }
	    expect.z0[port] = z;
	}
	break;
    }
    case 2: {				/* get_fz0 */
	cell_t got = vnadata_get_fz0(vdp, f, port);

	valid = f >= 0 && f < pre.freqs && port >= 0 && port < ports;
	if (valid)
	    CHECK(SAME_BITS(got, pre.fz0 ? pre.fz0v[f][port] : pre.z0[port]),
		    "get_fz0: the z0 of that frequency and port");
	else
	    CHECK(creal(got) == HUGE_VAL,
		    "get_fz0: index outside [0,n) gives HUGE_VAL");
	break;
    }
    case 3: {				/* set_fz0 */
	int rc = vnadata_set_fz0(vdp, f, port, z);

	valid = f >= 0 && f < pre.freqs && port >= 0 && port < ports;
	CHECK(rc == (valid ? 0 : -1),
		"set_fz0: accepted exactly for indices inside [0,n)");
	if (valid) {
	    if (!pre.fz0) {		/* documented preserve */
		expect.fz0 = 1;
		for (int g = 0; g < VD_FA_MAX; ++g)
		    for (int q = 0; q < VD_PA_MAX; ++q)
			if (g < pre.freqs && q < ports)
			    expect.fz0v[g][q] = pre.z0[q];
		for (int q = 0; q < VD_PA_MAX; ++q)
		    expect.z0[q] = VNADATA_DEFAULT_Z0;
	    }
	    expect.fz0v[f][port] = z;
	}
	break;
    }
    case 4: {				/* set_z0_vector */
	OWN_VECTOR_SOURCE();
	int rc = vnadata_set_z0_vector(vdp, src);

	CHECK(rc == 0, "set_z0_vector: accepted");
	expect.fz0 = 0;
	for (int q = 0; q < VD_PA_MAX; ++q) {
	    expect.z0[q] = q < ports ? vec[q] : (cell_t)VNADATA_DEFAULT_Z0;
	    for (int g = 0; g < VD_FA_MAX; ++g)
		expect.fz0v[g][q] = VNADATA_DEFAULT_Z0;
	}
	break;
    }
    case 5: {				/* set_fz0_vector */
	OWN_VECTOR_SOURCE();
	int rc = vnadata_set_fz0_vector(vdp, f, src);

	valid = f >= 0 && f < pre.freqs;
	CHECK(rc == (valid ? 0 : -1),
		"set_fz0_vector: accepted exactly for f inside [0,n)");
	if (valid) {
	    if (!pre.fz0) {
		expect.fz0 = 1;
		for (int g = 0; g < VD_FA_MAX; ++g)
		    for (int q = 0; q < VD_PA_MAX; ++q)
			if (g < pre.freqs && q < ports)
			    expect.fz0v[g][q] = pre.z0[q];
		for (int q = 0; q < VD_PA_MAX; ++q)
		    expect.z0[q] = VNADATA_DEFAULT_Z0;
	    }
	    for (int q = 0; q < VD_PA_MAX; ++q)
		if (q < ports)
		    expect.fz0v[f][q] = vec[q];
	}
	break;
    }
    case 6: {				/* set_all_z0 */
	int rc = vnadata_set_all_z0(vdp, z);

	CHECK(rc == 0, "set_all_z0: accepted");
	expect.fz0 = 0;
	for (int q = 0; q < VD_PA_MAX; ++q) {
	    expect.z0[q] = q < ports ? z : (cell_t)VNADATA_DEFAULT_Z0;
	    for (int g = 0; g < VD_FA_MAX; ++g)
		expect.fz0v[g][q] = VNADATA_DEFAULT_Z0;
	}
	break;
    }
    case 7: {				/* get_z0_vector */
	const cell_t *p = vnadata_get_z0_vector(vdp);
	IN(int, g_p);

	valid = !pre.fz0;
	if (!valid)
	    CHECK(p == NULL, "get_z0_vector: NULL in per-frequency mode");
	else if (g_p >= 0 && g_p < ports)
	    CHECK(p != NULL && SAME_BITS(p[g_p], pre.z0[g_p]),
		    "get_z0_vector: the stored vector");
	break;
    }
    case 8: {				/* get_fz0_vector */
	const cell_t *p = vnadata_get_fz0_vector(vdp, f);
	IN(int, g_p);

	valid = f >= 0 && f < pre.freqs;
	if (!valid)
	    CHECK(p == NULL, "get_fz0_vector: bad index gives NULL");
	else if (g_p >= 0 && g_p < ports)
	    CHECK(p != NULL && SAME_BITS(p[g_p],
			pre.fz0 ? pre.fz0v[f][g_p] : pre.z0[g_p]),
		    "get_fz0_vector: the vector of that frequency");
	break;
    }
    default:				/* has_fz0 */
	CHECK(vnadata_has_fz0(vdp) == pre.fz0, "has_fz0: reports the mode");
	break;
    }
    (void)silent_refusal;
    vd_view_of(vdip, &post);
    REACH("z0 op returned");
    if (valid) {
	REACH("z0 op accepted");
	CHECK_SILENT("z0 op");
    } else {
	REACH("z0 op refused");
	CHECK_REFUSED_USAGE("z0 op");
    }
    CHECK(wf_vnadata(vdip), "z0 op: representation invariant preserved");
    CHECK(vd_view_same(&expect, &post),
	    "z0 op: exactly the documented impedances change (preserve on "
	    "switch to per-frequency, reset on switch to ordinary)");
    vnadata_free(&vdip->vdi_vd);	/* and the result can be freed: no leak */
}

/* -------------------------------------------------------------------- free */
void h_free(void)
{
    MK_VNADATA(vdip, a);

    vnadata_free(&vdip->vdi_vd);
    REACH("free returned");
    /* --memory-leak-check: nothing the object owned remains allocated */
}

/* ------------------------------------------------------- resize: huge sizes */
/*
 * Dimensions whose product does not fit the size arithmetic (65536 x 65536,
 * 46341 x 46341): the call must be refused - not wrap around to a small or
 * negative cell count and leave an object whose logical size exceeds its
 * storage.  Concrete sizes; CBMC's signed-overflow checks are the obligation.
 */
#ifndef HUGE_N
#define HUGE_N 65536
#endif
void h_resize_huge(void)
{
    vnadata_t *vdp;
    int rc;

    ghost_err_reset();
    vdp = vnadata_alloc_and_init(verif_error_fn, NULL, VPT_UNDEF, 1, 1, 1);
    ASSUME(vdp != NULL);
    rc = vnadata_resize(vdp, VPT_UNDEF, HUGE_N, HUGE_N, 1);
    REACH("huge resize returned");
    CHECK(rc == -1 && ghost_err_calls == 1, "a matrix too large for the size arithmetic is refused with one report");
    CHECK(vnadata_get_rows(vdp) == 1 && vnadata_get_columns(vdp) == 1 && vnadata_get_frequencies(vdp) == 1,
	    "and the object keeps its size");
    vnadata_free(vdp);
}

#ifdef VERIF_NATIVE
int main(void)
{
    HARNESS();
    return 0;
}
#endif

/* recording contract shared by the generated vnaconv_* stubs and the C05 harness */
#ifndef CONV_REC_H
#define CONV_REC_H
#define CONV_CODE(from, to, isn)	(((from) << 16) | ((to) << 8) | (isn))
#define CONV_REC_MAX 4
extern int conv_calls;
extern int conv_code[CONV_REC_MAX];
extern const void *conv_in[CONV_REC_MAX];
extern void *conv_out[CONV_REC_MAX];
extern const void *conv_z0[CONV_REC_MAX];
extern int conv_n[CONV_REC_MAX];
extern void conv_record(int code, const void *in, void *out, const void *z0, int n, int out_cells);
#endif

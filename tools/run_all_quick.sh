#!/bin/sh
# runs every registered quick check once, sequentially; prints id, exit code, seconds
cd /verif
for p in $(python3 -c "import json; print(' '.join(c['property_id'] for c in json.load(open('MANIFEST.json'))['checks']))"); do
    t0=$(date +%s)
    ./check $p --tier quick > /tmp/w/q_$p.log 2>&1
    rc=$?
    echo "$p rc=$rc $(( $(date +%s) - t0 ))s $(head -1 /tmp/w/q_$p.log | cut -c1-100)"
done

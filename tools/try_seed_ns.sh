#!/bin/sh
# usage: try_seed_ns.sh <patch.diff> <check args...>
# Like try_seed.sh, but WITHOUT touching /repo or /verif: a clean checkout of /repo's HEAD (plus config.h) and a copy of
# /verif are bind-mounted over /repo and /verif inside a private mount namespace, the seeded change is applied there and
# the check runs there.  For development while a long run is using the real trees; results of registered checks never
# come from here.
P=$(readlink -f "$1"); shift
S=/tmp/seedns.$$
mkdir -p $S || exit 2
git -C /repo worktree add -q --detach $S/repo HEAD || exit 2
cp /repo/config.h $S/repo/config.h
mkdir -p $S/verif && rsync -a --exclude build --exclude .git --exclude replay /verif/ $S/verif/
git -C $S/repo apply "$P" || { git -C /repo worktree remove --force $S/repo; rm -rf $S; exit 3; }
unshare -m sh -c "mount --bind $S/repo /repo && mount --bind $S/verif /verif && cd /verif && timeout 1500 ./check $* 2>&1 | cut -c1-260 | head -30"
rc=$?
git -C /repo worktree remove --force $S/repo
rm -rf $S
exit $rc

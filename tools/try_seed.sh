#!/bin/sh
# usage: try_seed.sh <patch.diff> <check args...>   -- applies a seeded change to /repo, runs the check, reverts
P=$1; shift
# the revert at the end (git checkout -- .) would also discard a repair in progress: refuse to run on a dirty tree
if [ -n "$(git -C /repo status --porcelain --untracked-files=no)" ]; then echo "try_seed: /repo has uncommitted changes; commit or revert them first" >&2; exit 4; fi
git -C /repo apply "$P" || exit 3
timeout 900 /verif/check "$@" 2>&1 | cut -c1-260 | head -25
rc=$?
git -C /repo checkout -- .
git -C /repo status --short | grep -v '^??' | head -3

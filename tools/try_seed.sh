#!/bin/sh
# usage: try_seed.sh <patch.diff> <check args...>   -- applies a seeded change to /repo, runs the check, reverts
P=$1; shift
git -C /repo apply "$P" || exit 3
timeout 900 /verif/check "$@" 2>&1 | cut -c1-260 | head -25
rc=$?
git -C /repo checkout -- .
git -C /repo status --short | grep -v '^??' | head -3

#!/bin/sh
# usage: confirm_seed.sh <worktree> <seed-id>
# confirms a seeded change independently: suite passes with it, demo fails with it and passes without it;
# then stores patch.diff, demo.c, NOTES.txt and meta.json under /verif/seeded/<seed-id>/
W=$1; ID=$2
cd "$W" || exit 2
LOG=/tmp/confirm_$ID.log
{
echo "== build with change"; make -j8 >/dev/null 2>&1; echo "make rc=$?"
echo "== test suite with change"; make -C src/tests -j8 check 2>&1 | grep -E '^# (TOTAL|PASS|FAIL|ERROR)'
cc -g -fsanitize=address -I "$W/src" -I "$W" demo.c "$W/src/.libs/libvna.a" -lyaml -lm -o demo_with 2>&1 | tail -2
./demo_with >/dev/null 2>&1; echo "demo with change rc=$?"
git diff -- src > /tmp/confirm_$ID.patch; git apply -R /tmp/confirm_$ID.patch; make -j8 >/dev/null 2>&1
cc -g -fsanitize=address -I "$W/src" -I "$W" demo.c "$W/src/.libs/libvna.a" -lyaml -lm -o demo_without 2>&1 | tail -2
./demo_without >/dev/null 2>&1; echo "demo without change rc=$?"
git apply /tmp/confirm_$ID.patch; rm -f /tmp/confirm_$ID.patch; make -j8 >/dev/null 2>&1
} > $LOG 2>&1
mkdir -p /verif/seeded/$ID
git diff -- src > /verif/seeded/$ID/patch.diff
cp demo.c /verif/seeded/$ID/demo.c
cp NOTES.txt /verif/seeded/$ID/NOTES.txt 2>/dev/null
cp $LOG /verif/seeded/$ID/confirm.log
cat $LOG

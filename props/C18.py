"""C18 -- measurement-error modelling: the deterministic clauses contracts can decide."""
import re
import vdriver as V
import C20
import C10

H = "vnacal/c18.c"


def jobs(tier):
    J = []
    srcs = sorted(set(C20.BASE + C20.SOLVE + C20.common_sources()))
    types = ["VNACAL_UE14", "VNACAL_T8"] if tier == "quick" else ["VNACAL_UE14", "VNACAL_E12", "VNACAL_T8", "VNACAL_U8", "VNACAL_TE10", "VNACAL_UE10"]
    for t in types:
        d = C20.CUT + ["-DCAL_TYPE=%s" % t]
        J.append(V.Job("weights.%s" % t[7:], H, "h_weights", srcs, defines=d, unwind=14, union_struct=True,
                       kind="bounded", canary=(t == "VNACAL_UE14"),
                       functions=["_vnacal_new_solve_calc_weights", "_vnacal_new_solve_init",
                                  "_vnacal_new_solve_start_frequency", "vnacal_new_set_m_error"],
                       bound="%s 2x2, standards: short@1, open@2, through(1,2); six pairwise distinct concrete measured values, nf=1, tr in {0,1}" % t,
                       timeout=200))
        J.append(V.Job("m_error_reset.%s" % t[7:], H, "h_m_error_reset", srcs, defines=d, unwind=14, union_struct=True,
                       kind="bounded", canary=(t == "VNACAL_UE14"),
                       functions=["vnacal_new_set_m_error", "_vnacal_new_solve_init"],
                       bound="%s 2x2, same standards" % t, timeout=200))
    for t in (["VNACAL_UE14"] if tier == "quick" else ["VNACAL_UE14", "VNACAL_E12"]):
        d = C20.CUT + ["-DCAL_TYPE=%s" % t, "-DH_SIMPLE_INDEX"]
        s2 = [x for x in srcs if x not in ("vnacommon_mldivide.c", "vnacal_new_solve.c")]
        J.append(V.Job("simple_weight_index.%s" % t[7:], H, "h_simple_weight_index", s2,
                       strip={"vnacal_new_solve.c": ["_vnacal_new_solve_calc_weights"]},
                       defines=d, unwind=14, union_struct=True, kind="bounded", canary=True,
                       functions=["_vnacal_new_solve_simple (coefficient assembly)", "_vnacal_new_solve_next_equation",
                                  "_vnacal_new_solve_next_term"],
                       bound="%s 2x2, two exactly determined systems (through + short/open/match on each port), all measurements 1" % t,
                       timeout=400))
        s3 = [x for x in s2 if x not in ("vnacommon_qrsolve.c", "vnacal_new_solve_update_v_matrices.c")] + ["vnacal_new_set_iteration_limit.c"]
        J.append(V.Job("simple_weight_index_overdetermined.%s" % t[7:], H, "h_simple_weight_index", s3,
                       strip={"vnacal_new_solve.c": ["_vnacal_new_solve_calc_weights"]},
                       defines=d + ["-DOVERDETERMINED"], unwind=16, union_struct=True, kind="bounded", canary=True,
                       functions=["_vnacal_new_solve_simple (coefficient assembly, QR route)", "_vnacal_new_solve_next_equation",
                                  "_vnacal_new_solve_next_term"],
                       bound="%s 2x2, two over-determined systems with unknowns+1 and unknowns+2 equations, all measurements 1" % t,
                       timeout=400))
        J.append(V.Job("simple_iteration_mixed.%s" % t[7:], H, "h_simple_weight_index", s3,
                       strip={"vnacal_new_solve.c": ["_vnacal_new_solve_calc_weights"]},
                       defines=d + ["-DOVERDETERMINED", "-DMIXED"], unwind=16, union_struct=True, kind="bounded", canary=False,
                       functions=["_vnacal_new_solve_simple (V-matrix iteration across systems)"],
                       bound="%s 2x2, first system exactly determined, second over-determined (unknowns+2 equations), all measurements 1" % t,
                       timeout=400))
    for t in (["VNACAL_UE14", "VNACAL_T8"] if tier == "quick" else types):
        d = C20.CUT + ["-DCAL_TYPE=%s" % t, "-DH_PVALUE", "-DVERIF_CUT_pvalue_before_chisq=__CPROVER_assume(0)"]
        J.append(V.Job("pvalue_variance.%s" % t[7:], H, "h_pvalue_variance", srcs, defines=d, unwind=16, union_struct=True,
                       kind="bounded", canary=False,
                       functions=["_vnacal_new_solve_calc_pvalue (variance per equation; ghost assertion in place)"],
                       require=[r"variance of an equation's residual is taken from that equation's own measurement"],
                       bound="%s 2x2, short@1, open@2, through; concrete distinct measurements, nf = tr = 1; numeric tail (chisq_pvalue) cut" % t,
                       timeout=300, cbmc_flags=["--no-leak"]))
    for t in (["VNACAL_TE10"] if tier == "quick" else ["VNACAL_TE10", "VNACAL_UE10", "VNACAL_UE14"]):
        d = C20.CUT + ["-DCAL_TYPE=%s" % t, "-DH_PVALUE", "-DPVALUE_LEAKAGE", "-DVERIF_CUT_pvalue_before_chisq=__CPROVER_assume(0)"]
        J.append(V.Job("pvalue_leakage.%s" % t[7:], H, "h_pvalue_variance", srcs, defines=d, unwind=16, union_struct=True,
                       kind="bounded", canary=False,
                       functions=["_vnacal_new_solve_calc_pvalue (leakage contribution; the library's own assertions)"],
                       require=[r"assertion chisq >= 0", r"variance estimate of a leakage term is never negative"],
                       bound="%s 2x2, same history; one leakage cell's accumulated sum, sum of squares and count symbolic (bounded, NOT assumed consistent in exact arithmetic)" % t,
                       timeout=600, cbmc_flags=["--no-leak"]))
    for t in (["VNACAL_T8", "VNACAL_UE14"] if tier == "quick" else ["VNACAL_T8", "VNACAL_U8", "VNACAL_TE10", "VNACAL_UE10", "VNACAL_UE14", "VNACAL_E12"]):
        d = C20.CUT + ["-DCAL_TYPE=%s" % t, "-DH_PVALUE"]
        J.append(V.Job("pvalue_df0.%s" % t[7:], H, "h_pvalue_df0", srcs, defines=d, unwind=16, union_struct=True,
                       kind="bounded", canary=(t == "VNACAL_T8"),
                       functions=["_vnacal_new_solve_calc_pvalue (no degrees of freedom)"],
                       bound="%s 1x1, short/open/match (exactly determined), nf = tr = 1; the three solved terms: any numbers" % t,
                       timeout=300, cbmc_flags=["--no-leak", "--slice-formula"]))
    # the real _vnacal_new_solve_update_v_matrices on the mixed history (first column system exact, second over-determined)
    sv = [x for x in srcs if x not in ("vnacommon_minverse.c",)]
    for t, si in ([("VNACAL_UE14", 1), ("VNACAL_UE14", 0), ("VNACAL_E12", 1), ("VNACAL_T8", 0)] if tier == "quick" else
                  [(t, si) for t in ("VNACAL_UE14", "VNACAL_E12") for si in (0, 1)] + [(t, 0) for t in ("VNACAL_T8", "VNACAL_U8", "VNACAL_TE10", "VNACAL_UE10")]):
        J.append(V.Job("update_v.%s_s%d" % (t[7:], si), "vnacal/c18_v.c", "h_update_v", sv,
                       defines=C20.CUT + ["-DCAL_TYPE=%s" % t, "-DV_SINDEX=%d" % si], unwind=20, union_struct=True,
                       kind="bounded", canary=((t == "VNACAL_UE14" and si == 1) or t == "VNACAL_T8"),
                       functions=["_vnacal_new_solve_update_v_matrices", "update_v_ue14", "update_v_t8", "update_v_u8", "update_v_te10", "update_v_ue10"],
                       bound="%s 2x2, through + short/open/match per port + two redundant reflects on port 2, noise model on; system %d; inversion kernel by recording contract" % (t, si),
                       timeout=400, cbmc_flags=["--slice-formula"]))
    for j in C10.jobs("quick"):
        if j.name in ("range.m_error", "spline.knots.n1", "spline.knots.n2", "spline.linear"):
            j.name = "noise_grid." + j.name      # clause: noise vectors on their own grid pass through the given points
            j.canary = False
            j.imported = True
            J.append(j)
    return J


ASSUME = [
    "sqrt replaced by an identity stand-in (uninterpreted): the weight formula is compared structurally, not numerically",
    "double complex compiled as double; -Dunion=struct; vnacal_new_t built through the real API on one concrete 2x2 history per type",
    "NOT covered: rejection rates, exact-data equivalence, outlier detection (statistics; outside contract verification); solve_auto's use of the weight vector is not checked (solve_simple's is: simple_weight_index)",
    "noise vectors on their own grid pass through the given points: C10 (spline contracts, range.m_error)",
]
TRUSTED = ["CBMC 6.11", "stubs/*"]


def main(tier, only=None):
    J = jobs(tier)
    if only:
        J = [j for j in J if re.search(only, j.name)]
    return V.run_property("C18", J, tier, level="proof", assumptions=ASSUME, trusted_base=TRUSTED,
                          min_obligations=100,
                          technique="CBMC contract harnesses on the real weight computation and m_error reset (real vnacal_new_t histories)")

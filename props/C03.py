"""C03 -- no API call sequence corrupts memory, invokes UB or leaks (the part contracts reach)."""
import re
import vdriver as V
import C15, C16, C13, C10, C12, C05, C07, C20, C18


def jobs(tier):
    J = []
    for sc in range(1, 24):
        J.append(V.Job("add_scenario.%02d" % sc, "vnacal/c03_add.c", "h_add_scenario", C20.BASE,
                       defines=C20.CUT + ["-DSCENARIO=%d" % sc], unwind=14, union_struct=True, kind="bounded",
                       canary=(sc in (1, 3)),
                       functions=["_vnacal_new_add_common", "vnacal_new_add_mapped_matrix_m", "vnacal_new_add_through_m",
                                  "vnacal_new_add_double_reflect_m", "build_connectivity_matrix", "add_equation"],
                       bound="scenario %d of harness/vnacal/c03_add.c (concrete shapes/arguments, symbolic measured values)" % sc,
                       timeout=200))
    J.append(V.Job("zero_frequencies", "vnacal/c03_add.c", "h_zero_frequencies", C20.BASE, defines=C20.CUT, unwind=14,
                   union_struct=True, kind="bounded", functions=["vnacal_new_alloc", "vnacal_new_set_frequency_vector"],
                   bound="T8 2x2 calibration with 0 frequencies", timeout=200))
    J.append(V.Job("zero_frequencies_m_error", "vnacal/c03_add.c", "h_zero_frequencies",
                   C20.BASE + ["vnacal_new_set_m_error.c", "vnacommon_spline.c"], defines=C20.CUT + ["-DZERO_M_ERROR"], unwind=14,
                   union_struct=True, kind="bounded", functions=["vnacal_new_set_m_error", "vnacal_new_set_frequency_vector"],
                   bound="T8 2x2 calibration with 0 frequencies, noise model on a two-point grid", timeout=200))
    J.append(V.Job("zero_frequencies_add", "vnacal/c03_add.c", "h_zero_frequencies",
                   C20.BASE + ["vnacal_make_vector_parameter.c", "vnacal_delete_parameter.c"], defines=C20.CUT + ["-DZERO_ADD"], unwind=14,
                   union_struct=True, kind="bounded", functions=["vnacal_new_add_single_reflect_m", "get_parameter_node", "vnacal_new_set_frequency_vector"],
                   bound="T8 2x2 calibration with 0 frequencies, frequency vector given, then a reflect standard with a vector parameter", timeout=300))
    J.append(V.Job("empty_calibration", "vnacal/c03_add.c", "h_empty_calibration",
                   C20.BASE + ["vnacal_get.c"], defines=C20.CUT + ["-DEMPTY_CALIBRATION"], unwind=14,
                   union_struct=True, kind="bounded",
                   functions=["vnacal_get_fmin", "vnacal_get_fmax", "_vnacal_calibration_get_fmin_bound", "_vnacal_calibration_get_fmax_bound"],
                   bound="a T8 1x1 calibration with 0 frequencies in the table", timeout=200))
    srcs_solve = sorted(set(C20.BASE + C20.SOLVE + C20.common_sources() + ["vnacal_make_unknown_parameter.c"]))
    for t in ("VNACAL_T8", "VNACAL_UE14"):
        J.append(V.Job("update_s_partial.%s" % t[7:], "vnacal/c20.c", "h_update_s_partial", srcs_solve,
                       defines=C20.CUT + ["-DCAL_TYPE=%s" % t, "-DCAL_ROWS=2", "-DCAL_COLS=2"], unwind=20,
                       union_struct=True, kind="bounded", canary=False,
                       functions=["_vnacal_new_solve_update_s_matrices", "_vnacal_new_solve_start_frequency"],
                       bound="%s 2x2, one reflect standard with an unknown parameter (other S cells unspecified)" % t,
                       timeout=300, cbmc_flags=["--slice-formula"]))
    # memory-safety / leak obligations of the data-structure harnesses (same jobs, re-run under this id)
    def take(mod, pats, prefix):
        for j in mod.jobs("quick"):
            if any(re.match(p, j.name) for p in pats):
                j.name = prefix + "." + j.name
                j.canary = False
                j.imported = True
                J.append(j)
    take(C15, [r"(free|cell|matrix|z0\.op[0-5])\.r_max2_f_max2_pa(2_ma4_fa2|0_ma0_fa2)_fz0[01]$",
               r"add_frequency\.", r"resize\..*rows2_columns2_freqs2_pa2_ma4_fa2_fz01_new_rows3_new_columns3_new_freqs3$"], "vnadata")
    take(C16, [r"(free_vnacal|delete_calibration|add_calibration)\.alloc8$", r"(teardown|delete_parameter)\.alloc8"], "vnacal")
    take(C13, [r"list\.alloc8_len8_op[013]_ix(7|8|9)(_noadd)?$", r"list\.alloc8_len7_op3_ix6$", r"map\.ops(111|012|022)_keysab[ac]$"], "vnaproperty")
    take(C10, [r"spline\.bad_x", r"spline\.calc_frame", r"rfi\.window\.n5_m5", r"rfi\.search"], "interp")
    take(C05, [r"convert\..*rows3_columns3_freqs1.*_inplace$"], "vnadata")
    take(C07, [r"add_(double|complex)\.upto", r"add_integer$"], "vnacal_save")
    take(C20, [r"add_counts\.(T8|U8|UE14|E12)_2x2_bad", r"solve_too_few\.(T8|UE14|U8)_2x2", r"v_matrices\.", r"refused_unknown\."], "vnacal_new")
    take(C18, [r"weights\.UE14$", r"m_error_reset\.UE14$"], "vnacal_new")
    import C11
    take(C11, [r"refused\.make_correlated\.case[0126]$", r"solve_frame\..*resolved"], "vnacal")   # refusal paths free their private copies
    import C01
    take(C01, [r"apply_frame\.(T8|UE14)_(f[02]|cal0)$"], "vnacal")      # apply: no read outside the caller's vectors, also for an empty request
    take(C12, [r"vnacal_corr\.k00$"], "vnacal")       # parameter chains incl. a borrowed sigma frequency vector: freed exactly once
    return J


ASSUME = [
    "C03 quantifies over ALL call sequences of the whole API; what is decided here is: each listed operation is memory-safe and leak-free from ANY well-formed object (hence in every history of those operations), for the data structures under contract (vnadata, vnacal calibration/parameter tables, vnacal_new parameter hash, property lists/maps, interpolation kernels, save formatters within ordinary precisions)",
    "covered only along concrete histories (not from arbitrary objects): vnacal_new_alloc / add_single_reflect_m / add_through_m / solve failing for too few standards / solve_init / calc_weights / vnacal_new_free; NOT covered: successful numeric solves, a/b forms, mapped matrices, save/load bodies (stdio, libyaml), YAML import/export, the property descriptor parser; UB in floating-point arithmetic",
    "see the assumptions of C15, C16, C13, C10, C05, C07 for the shared modelling steps",
]
TRUSTED = ["CBMC 6.11 memory model and standard checks (bounds, pointer, overflow, memory-leak)", "stubs/*"]


def main(tier, only=None):
    J = jobs(tier)
    if only:
        J = [j for j in J if re.search(only, j.name)]
    return V.run_property("C03", J, tier, level="proof", assumptions=ASSUME, trusted_base=TRUSTED,
                          min_obligations=1000,
                          technique="CBMC memory-safety and leak obligations on the contract harnesses of the data structures (invariant-preservation gives all histories)")

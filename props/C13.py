"""C13 -- the property tree behaves like a map/list/scalar document model (container layer)."""
import re
import vdriver as V

H = "c13.c"


def jobs(tier):
    J = []
    import itertools
    for a in (0, 8):
        lengths = (0,) if a == 0 else ((0, 1, 7, 8) if tier == "quick" else range(9))
        for ln in lengths:
            idxs = sorted(set([-1, 0, ln - 1, ln, ln + 1, 9]) - {-2}) if tier == "quick" else range(-1, 11)
            idxs = [i_ for i_ in idxs if -1 <= i_ <= a + 2]      # the harness bounds the index by allocation + 2
            for op in range(5):
                for ix, addv in [(ix, addv) for ix in (idxs if op in (0, 1, 3) else (0,))
                                 for addv in ((0, 1) if op == 0 else (1,))]:
                    d = ["-DLIST_ALLOC=%d" % a, "-DLIST_FIX", "-DLIST_LENGTH=%d" % ln, "-DLIST_OP=%d" % op,
                         "-DLIST_INDEX=(%d)" % ix, "-DLIST_ADD=%d" % addv]
                    J.append(V.Job("list.alloc%d_len%d_op%d_ix%s%s" % (a, ln, op, str(ix).replace("-", "m"), "_noadd" if (op == 0 and not addv) else ""), H,
                                   "h_list", [], defines=d, unwind=18, shim=False, kind="bounded",
                                   canary=(a == 8 and ln == 7 and ix in (3, 6, 0)),
                                   functions=["list_subtree", "list_insert", "list_append", "list_delete",
                                              "list_count", "list_check_allocation", "list_alloc",
                                              "scalar_alloc", "vnaproperty_free"],
                                   bound="list allocation %d, length %d (incl. FULL), op %d, index %d; which children are null symbolic" % (a, ln, op, ix),
                                   timeout=300))
    steps = 3
    seqs = list(itertools.product((0, 1, 2), repeat=steps))
    if tier == "quick":
        seqs = [q for q in seqs if q[0] == 0 or q == (1, 1, 1) or q == (2, 0, 1)]
    k1, k2, k3 = colliding_keys()
    keyseqs = [(k1, k1, k1), (k1, k2, k1), (k1, k2, k2), (k1, k2, k3), (k2, k1, k3), (k1, k3, k1)]
    for q in seqs:
        for ks in (keyseqs if tier != "quick" else keyseqs[:4]):
            d = ["-DMAP_STEPS=%d" % steps, "-DMAP_OPS=%s" % ",".join(map(str, q)),
                 "-DMAP_KEYSEQ=%s" % ",".join(str(ord(c)) for c in ks)]
            J.append(V.Job("map.ops%s_keys%s" % ("".join(map(str, q)), "".join(ks)), H, "h_map", [], defines=d,
                           unwind=14, shim=False, kind="bounded", canary=(q == (0, 1, 2) and ks == keyseqs[1]),
                           functions=["map_subtree", "map_delete", "map_find_anchor", "map_expand", "map_count",
                                      "map_append_order_element", "map_delete_order_element", "crc32c",
                                      "vnaproperty_free"],
                           bound="op sequence %s (0 set, 1 get, 2 delete) on keys %s from the empty map (%s,%s share a hash bucket)" % (q, ks, k1, k2),
                           timeout=300))
    reps = ["a", "Z", "7", "_", "-", " ", "\\", ".", "[", "]", "{", "}", "#", "=", "+", "\t", "\x80", "\xff"]
    codes = [ord("a"), ord("Z"), ord("7"), ord("_"), ord("-"), ord(" "), ord("\\"), ord("."), ord("["), ord("]"),
             ord("{"), ord("}"), ord("#"), ord("="), ord("+"), 9, -128, -1]
    for n in ((1, 2) if tier == "quick" else (1, 2, 3)):
        combos = list(itertools.product(range(len(codes)), repeat=n))
        if tier == "quick" and n == 2:
            combos = [c for c in combos if c[0] in (0, 2, 5, 6, 7, 16) or c[1] in (5, 6)]
        if n == 3:
            combos = [c for c in combos if c[0] in (0, 5, 6) and c[2] in (0, 5, 6, 7)]
        for c in combos:
            d = ["-DKEY_LEN=%d" % n, "-DKEY_BYTES=%s" % ",".join(str(codes[i]) for i in c)]
            J.append(V.Job("quote_key.%s" % "_".join("%02x" % (codes[i] & 255) for i in c), H, "h_quote_key", [],
                           defines=d, unwind=16, shim=False, kind="bounded", canary=(c == (5, 0)[:n]),
                           functions=["vnaproperty_quote_key", "scan"],
                           bound="key bytes %s (one representative per character class of the scanner)" % (c,),
                           timeout=300))
    J.append(V.Job("map_compare_keys", H, "h_map_compare", [], unwind=4, shim=False, kind="proof", canary=True,
                   functions=["map_compare_keys"], bound="none: both 32-bit hash values and both key bytes symbolic; loop-free",
                   timeout=200, cbmc_flags=["--no-leak"]))
    for c in (0, 1, 2, 3, 4, 6, 7, 8, 9, 10, 11, 12, 13, 14):     # cases 5 and 15 (a numeric subscript: the scanner's digit loop and strtol run over the heap copy of the descriptor, which symex does not constant-fold) do not finish in 600 s: not covered
        J.append(V.Job("descriptor.case%d" % c, H, "h_descriptor", [], defines=["-DH_DESCRIPTOR", "-DDESC_CASE=%d" % c],
                       unwind=12, shim=False, kind="bounded", canary=(c == 0),
                       functions=["vnaproperty_vset", "vnaproperty_vget", "vnaproperty_vget_subtree", "vnaproperty_vdelete",
                                  "vnaproperty_vcount", "vnaproperty_vtype", "vnaproperty_vset_subtree", "vnaproperty_copy", "dfs_copy", "parse", "descend", "parse_and_descend", "scan", "parser_free"],
                       bound="concrete descriptor history, case %d of harness/c13.c h_descriptor (set foo=bar, then one well-formed or malformed descriptor)" % c,
                       timeout=(200 if tier == "quick" else 1500)))
    J.append(V.Job("export_keys", H, "h_export_keys", [], defines=["-DH_EXPORT"], unwind=12, shim=False, kind="bounded", canary=True,
                   functions=["_vnaproperty_yaml_export", "add_mapping_entry", "vnaproperty_quote_key", "vnaproperty_vkeys", "vnaproperty_vget_subtree"],
                   bound="the tree {\"a.b\": v, plain: w}; libyaml document functions by recording model", timeout=600))
    if tier != "quick":   # every one-byte key (a fully symbolic byte runs the SAT back end out of memory: DESIGN 8.5)
        have = {j.name for j in J}
        for b in range(1, 256):
            nm = "quote_key.%02x" % b
            if nm in have:
                continue
            J.append(V.Job(nm, H, "h_quote_key", [], defines=["-DKEY_LEN=1", "-DKEY_BYTES=%d" % (b if b < 128 else b - 256)],
                           unwind=16, shim=False, kind="bounded", canary=False,
                           functions=["vnaproperty_quote_key", "scan"], bound="the one-byte key 0x%02x" % b, timeout=300))
    return J


def colliding_keys():
    """parse crc32c_table from the repository source and pick two one-byte keys in the same hash bucket"""
    import os
    src = open(os.path.join(V.SRC, "vnaproperty.c")).read()
    m = re.search(r"crc32c_table\[\]\s*=\s*\{(.*?)\};", src, re.S)
    tab = [int(x, 16) for x in re.findall(r"0x[0-9A-Fa-f]+", m.group(1))]
    if len(tab) != 256:
        raise SystemExit(2)

    def h(c):
        v = 0xFFFFFFFF
        v = ((v << 8) & 0xFFFFFFFF) ^ tab[((v >> 24) ^ ord(c)) & 255]
        return v % 11
    letters = "abcdefghijklmnopqrstuvwxyz"
    for i, a in enumerate(letters):
        for b in letters[i + 1:]:
            if h(a) == h(b):
                c = next(x for x in letters if h(x) != h(a))
                return a, b, c
    return "a", "b", "c"


ASSUME = [
    "container layer + vnaproperty_quote_key against the real scanner (one representative byte per scanner character class at each of 1-2 positions, 3 in thorough; every one-byte key in thorough); the descriptor parser (parse, parse_and_descend) and vnacal_property_* wrappers work on vasprintf output and are not covered",
    "<ctype.h> classification by the C-locale table in stubs/verif_libc.c (glibc's __ctype_b_loc has no CBMC body)",
    "maps are explored by bounded histories from the empty map (not from an arbitrary well-formed map)",
    "strdup/strlen/strcmp/isalpha/isdigit: CBMC library models; malloc never fails here (C12)",
]
TRUSTED = ["CBMC 6.11", "stubs/verif_libc.c (memcpy/memmove/memset models)"]


def main(tier, only=None):
    J = jobs(tier)
    if only:
        J = [j for j in J if re.search(only, j.name)]
    return V.run_property("C13", J, tier, level="proof", assumptions=ASSUME, trusted_base=TRUSTED,
                          min_obligations=100,
                          technique="CBMC contract harnesses on the static container functions of vnaproperty.c (abstract sequence / ordered-map views)")

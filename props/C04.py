"""C04 -- every network-parameter conversion yields the same physical network (two-port functions; slvc engine)."""
import os
import subprocess
import sys


def main(tier, only=None):
    here = os.path.dirname(os.path.dirname(os.path.abspath(__file__)))
    cmd = ["python3-vt", os.path.join(here, "slvc", "slvc.py"), "--tier", tier]
    if only:
        cmd += ["--only", only]
    return subprocess.call(cmd)

"""C01 -- calibrate-then-apply recovers S: the structural links that contracts can decide."""
import os
import re
import subprocess
import vdriver as V


def extract(fn):
    wd = os.path.join(V.BUILD, "C01")
    os.makedirs(wd, exist_ok=True)
    out = os.path.join(wd, fn + ".inc")
    p = subprocess.run(["python3", os.path.join(V.VERIF, "gen", "extract_fn.py"),
                        os.path.join(V.SRC, "vnacal_apply.c"), fn, out],
                       stdout=subprocess.PIPE, stderr=subprocess.PIPE, text=True)
    if p.returncode != 0:
        print("INFRA: extraction failed: " + p.stderr.strip())
        raise SystemExit(2)
    return out, p.stdout.strip()


SHAS = {}


def jobs(tier):
    J = []
    for dmax in ((8,) if tier == "quick" else (8, 16)):
        J.append(V.Job("layout.dim%d" % dmax, "vnacal/c01_layout.c", "h_layout", ["vnacal_layout.c"],
                       defines=["-DLAYOUT_DIM_MAX=%d" % dmax], unwind=3, kind="bounded",
                       dfcc=dict(enforce=["_vnacal_layout"]),
                       functions=["_vnacal_layout (DFCC function contract)"],
                       require=[r"Check ensures clause of contract contract::_vnacal_layout"],
                       bound="all 9 error-term types, m_rows, m_columns in 1..%d (products of symbolic dimensions)" % dmax,
                       cbmc_flags=["--no-leak"], timeout=(200 if tier == "quick" else 1800)))
    for fn, typ, full, form in (("fill_t8", "VNACAL_T8", 0, 0), ("fill_t8", "VNACAL_TE10", 0, 0), ("fill_t16", "VNACAL_T16", 1, 1),
                                ("fill_u8", "VNACAL_U8", 0, 2), ("fill_u8", "VNACAL_UE10", 0, 2), ("fill_u16", "VNACAL_U16", 1, 3),
                                ("fill_ue14", "VNACAL_UE14", 0, 4)):
        if fn == "fill_u16" and tier == "quick":
            continue        # U16 n=2 needs > 200 s (products of sums in Z/256 on both sides): thorough only
        inc, sha = extract(fn)
        SHAS[fn] = sha
        for n in (((2, 3) if not full else (2,)) if tier == "quick" else ((2, 3, 4) if not full else ((2, 3) if fn != "fill_u16" else (2,)))):
            J.append(V.Job("%s.%s.n%d" % (fn, typ, n), "vnacal/c01_fill.c", "h_fill_t", ["vnacal_layout.c"],
                           defines=["-DFILL_INC=\"%s\"" % inc, "-DFILL_FN=%s" % fn, "-DFILL_TYPE=%s" % typ,
                                    "-DFILL_FULL=%d" % full, "-DFILL_FORM=%d" % form, "-DN=%d" % n],
                           unwind=n + 2, shim=False, kind="bounded", canary=(n == 2),
                           functions=["%s (extracted text, ring Z/256)" % fn],
                           bound="%s, %dx%d, every error term and measurement symbolic in Z/256, symbolic cell" % (typ, n, n),
                           cbmc_flags=["--no-leak"], timeout=(200 if tier == "quick" else 1800)))
    import C20
    pairs = [(3, 1), (1, 3), (2, 3)] if tier == "quick" else [(3, 1), (1, 3), (2, 3), (3, 2), (1, 2), (2, 1)]
    for t in (("VNACAL_T8", "VNACAL_U8") if tier == "quick" else ("VNACAL_T8", "VNACAL_U8", "VNACAL_TE10", "VNACAL_UE10", "VNACAL_UE14")):
        for (p1, p2) in pairs:
            J.append(V.Job("cell_map.%s_p%d%d" % (t[7:], p1, p2), "vnacal/c01_map.c", "h_cell_map",
                           C20.BASE + ["vnacal_make_scalar_parameter.c"],
                           defines=C20.CUT + ["-DCAL_TYPE=%s" % t, "-DP1=%d" % p1, "-DP2=%d" % p2], unwind=14,
                           union_struct=True, kind="bounded", canary=((p1, p2) == (3, 1) and t == "VNACAL_T8"),
                           functions=["_vnacal_new_add_common (cell maps)", "vnacal_new_add_line_m"],
                           bound="%s 3x3, two-port standard with abbreviated 2x2 M on ports (%d,%d); measured values symbolic" % (t, p1, p2),
                           timeout=300))
    # link 1 starts at the entry points: the m and the a/b form of through / line / mapped matrix hand the funnel the
    # SAME description of the standard (S parameters, port map in the caller's order) - job of C17, re-run here
    import C17
    for j in C17.wrapper_jobs(tier):
        j.name = "entry_points." + j.name
        j.canary = False
        j.imported = True
        J.append(j)
    import C15
    asrc = ["vnacal_apply.c", "vnacal_create.c", "vnacal_free.c", "vnacal_calibration.c", "vnacal_parameter.c",
            "vnacal_layout.c", "vnacal_error.c", "vnacal_get.c"] + C15.SRCS
    for t, form in (("VNACAL_T8", "T8"), ("VNACAL_U8", "U8"), ("VNACAL_UE14", None), ("VNACAL_E12", None),
                    ("VNACAL_T16", None), ("VNACAL_TE10", "T8"), ("VNACAL_UE10", "U8"), ("VNACAL_U16", None)):
        for nf in (2, 0):
            if nf == 0 and t not in ("VNACAL_T8", "VNACAL_UE14"):
                continue
            if tier == "quick" and t in ("VNACAL_TE10", "VNACAL_UE10", "VNACAL_U16"):
                continue
            # nf == 0: own memcpy model (CBMC's built-in one flags memcpy(NULL, p, 0), which vnadata_set_frequency_vector does for an empty object)
            d = (["-DVERIF_BUILTIN_MEM"] if nf else []) + ["-DCAL_TYPE=%s" % t, "-DN_APPLY=%d" % nf] + (["-DCHECK_FORM_%s" % form] if form else [])
            J.append(V.Job("apply_frame.%s_f%d" % (t[7:], nf), "vnacal/c01_apply.c", "h_apply_frame", asrc, defines=d, unwind=20,
                           unwindset={"_vnacal_calibration_alloc.0": 26, "_vnacal_calibration_free.0": 26},
                           union_struct=True, kind="bounded", canary=(t == "VNACAL_T8" and nf == 2),
                           functions=["vnacal_apply_m", "_vnacal_apply_common", "fill_t8", "fill_u8", "fill_t16", "fill_u16",
                                      "fill_ue14", "fill_e12", "_vnacal_calibration_get_fmin_bound",
                                      "_vnacal_calibration_get_fmax_bound", "_vnacal_get_calibration"],
                           bound="%s 2x2 calibration with 3 frequencies, apply_m at %d frequencies (one between knots); marker error terms and "
                                 "measurements, kernels and _vnacal_rfi by recording contract, determinant symbolic" % (t, nf),
                           timeout=300))
    for t in ("VNACAL_T8", "VNACAL_UE14"):
        J.append(V.Job("apply_frame.%s_cal0" % t[7:], "vnacal/c01_apply.c", "h_apply_frame", asrc,
                       defines=["-DCAL_TYPE=%s" % t, "-DN_APPLY=2", "-DCAL_F=0"], unwind=20,
                       unwindset={"_vnacal_calibration_alloc.0": 26, "_vnacal_calibration_free.0": 26},
                       union_struct=True, kind="bounded", canary=False,
                       functions=["vnacal_apply_m", "_vnacal_apply_common", "_vnacal_calibration_get_fmin_bound", "_vnacal_calibration_get_fmax_bound"],
                       bound="%s 2x2 calibration with NO frequencies, apply_m at 2 frequencies" % t, timeout=300))
    seqs = [("grow_16_first", "16,3,4,5,6,7,8,9"), ("grow_16_last", "3,4,5,6,7,8,16,9"), ("grow_no_collision", "3,4,5,6,7,8,9,10"),
            ("small", "16,3")]
    if tier != "quick":
        seqs += [("grow_descending", "16,15,14,13,12,11,10,9"), ("grow_8_and_16", "8,16,3,4,5,6,7,9,10")]
    for nm, sq in seqs:
        J.append(V.Job("param_hash." + nm, "vnacal/c01_hash.c", "h_param_hash",
                       C20.BASE + ["vnacal_make_scalar_parameter.c", "vnacal_delete_parameter.c"],
                       defines=C20.CUT + ["-DHASH_SEQ=" + sq], unwind=6,
                       unwindset={"hash_expand.0": 18, "hash_expand.1": 18, "hash_expand.2": 18, "_vnacal_new_free_parameter_hash.0": 34,
                                  "_vnacal_new_free_parameter_hash.1": 34, "_vnacal_teardown_parameter_collection.0": 24,
                                  "_vnacal_teardown_parameter_collection.1": 24}, union_struct=True, kind="bounded",
                       canary=(nm == "grow_16_first"),
                       functions=["hash_expand", "hash_lookup", "hash_insert", "_vnacal_new_get_parameter",
                                  "_vnacal_new_init_parameter_hash", "_vnacal_new_free_parameter_hash"],
                       bound="handles %s requested in this order from a new TE10 2x2 calibration (table grows 8->16 at the 8th node), then every handle looked up again" % sq,
                       timeout=120))
    lsrcs = sorted(set(C20.BASE + C20.SOLVE + C20.common_sources() + ["vnacal_delete_parameter.c"]))
    for t in (("VNACAL_TE10", "VNACAL_UE14") if tier == "quick" else ("VNACAL_TE10", "VNACAL_UE10", "VNACAL_UE14", "VNACAL_E12")):
        J.append(V.Job("leakage_samples.%s" % t[7:], "vnacal/c20.c", "h_leakage_samples", lsrcs,
                       defines=C20.CUT + ["-DCAL_TYPE=%s" % t, "-DCAL_ROWS=3", "-DCAL_COLS=3"], unwind=26, union_struct=True,
                       kind="bounded", canary=(t == "VNACAL_TE10"),
                       functions=["_vnacal_new_solve_start_frequency (leakage accumulation)", "_vnacal_new_solve_init",
                                  "build_connectivity_matrix", "vnacal_new_add_mapped_matrix_m"],
                       bound="%s 3x3, a 3-port divider with S23 = 0 (all ports connected through port 1) and a two-port standard with "
                             "unconnected ports, full 3x3 measurements, all 18 measured values symbolic" % t,
                       timeout=400, cbmc_flags=["--slice-formula"]))
    J.append(V.Job("param_hash.deleted_handle", "vnacal/c01_hash.c", "h_deleted_handle",
                   C20.BASE + ["vnacal_make_scalar_parameter.c", "vnacal_make_correlated_parameter.c", "vnacal_delete_parameter.c",
                               "vnacommon_spline.c"],
                   defines=C20.CUT, unwind=12, union_struct=True, kind="bounded", canary=False,
                   functions=["_vnacal_new_get_parameter", "get_parameter_node", "vnacal_delete_parameter", "_vnacal_release_parameter"],
                   bound="scalar p, scalar g, correlated c(g) in a T8 2x2 calibration; delete p and g while in use", timeout=300))
    return J


ASSUME = [
    "ring substitution: fill_* are compiled with double complex -> unsigned char (Z/256) on the mechanically extracted text: IEEE rounding, overflow, NaN dropped; indices, bounds, offsets, signs, operands kept",
    "the linear kernels (_vnacommon_mldivide/mrdivide/qrsolve) are assumed to return the solution of the system they are given; in the apply frame they and _vnacal_rfi are recording contracts (marker values)",
    "link 2 (cell mapping of _vnacal_new_add_common) only along real histories with a two-port standard, abbreviated 2x2 M and all port orders on a 3x3 calibration; the parameter collection along concrete handle sequences; the apply frame on 2x2 calibrations with 3 calibration and 0 or 2 requested frequencies, m form",
    "NOT covered: _vnacal_new_build_equation_terms, fill_e12 (divisions), solve loops, a/b forms of apply, rfi values between knots, accuracy: the end-to-end numerical statement of C01 is out of reach",
]
TRUSTED = ["CBMC 6.11 DFCC", "gen/extract_fn.py (line-anchored extraction)", "harness/vnacal/c01_fill.c (documented forms restated)"]


def main(tier, only=None):
    J = jobs(tier)
    if only:
        J = [j for j in J if re.search(only, j.name)]
    return V.run_property("C01", J, tier, level="proof", assumptions=ASSUME, trusted_base=TRUSTED,
                          min_obligations=100, extra_coverage=dict(extraction_sha256=SHAS),
                          technique="DFCC function contract on _vnacal_layout; ring-substituted cell-wise contracts on the extracted fill_* functions; CBMC contract harnesses (cell map, parameter collection, apply frame with recording contracts)")

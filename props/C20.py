"""C20 -- too few standards are reported; the accumulated standards survive (counting clause)."""
import glob
import os
import re
import vdriver as V

H = "vnacal/c20.c"
BASE = ["vnacal_create.c", "vnacal_free.c", "vnacal_new.c", "vnacal_new_add_common.c",
        "vnacal_new_build_equation_terms.c", "vnacal_new_parameter.c", "vnacal_parameter.c", "vnacal_layout.c",
        "vnacal_error.c", "vnacal_calibration.c", "vnacal_rfi.c"]
SOLVE = ["vnacal_new_solve.c", "vnacal_new_solve_simple.c", "vnacal_new_solve_auto.c", "vnacal_new_solve_trl.c",
         "vnacal_new_solve_init_x_vector.c", "vnacal_new_solve_pvalue.c", "vnacal_new_solve_update_v_matrices.c",
         "vnacal_new_set_m_error.c", "vnacommon_spline.c", "vnacal_make_scalar_parameter.c"]
CUT = ["-DVERIF_BUILTIN_MEM", "-DVERIF_CUT_rfi_after_search=__CPROVER_assume(0)"]
TYPES = [("VNACAL_T8", 2, 2), ("VNACAL_U8", 2, 2), ("VNACAL_TE10", 2, 2), ("VNACAL_UE10", 2, 2),
         ("VNACAL_T16", 2, 2), ("VNACAL_U16", 2, 2), ("VNACAL_UE14", 2, 2), ("VNACAL_E12", 2, 2),
         ("VNACAL_T8", 1, 2), ("VNACAL_U8", 2, 1), ("VNACAL_T8", 1, 1), ("VNACAL_UE14", 2, 1)]


def common_sources():
    return [os.path.basename(p) for p in sorted(glob.glob(os.path.join(V.SRC, "vnacommon_*.c")))]


def jobs(tier):
    J = []
    types = TYPES[:8] if tier == "quick" else TYPES
    for (t, r, c) in TYPES if tier != "quick" else TYPES[:8]:
        if t in ("VNACAL_T16", "VNACAL_U16"):
            continue        # a 1x1 reflect measurement is not a valid shape for the 16-term types
        if (r, c) != (2, 2):
            continue        # the history measures reflects on ports 1 and 2: both must be rows and columns (false alarm in the first thorough run, DESIGN 8.15)
        for bad in ((-5, 3, 100) if (t, r, c) == ("VNACAL_T8", 2, 2) or tier != "quick" else (3,)):
            d = CUT + ["-DCAL_TYPE=%s" % t, "-DCAL_ROWS=%d" % r, "-DCAL_COLS=%d" % c, "-DBAD_HANDLE=(%d)" % bad]
            J.append(V.Job("add_counts.%s_%dx%d_bad%s" % (t[7:], r, c, str(bad).replace("-", "m")), H, "h_add_counts", BASE, defines=d, unwind=14,
                         union_struct=True, kind="bounded", canary=(t == "VNACAL_T8" and r == 2 and bad == 3),
                         functions=["_vnacal_new_add_common", "add_equation", "_vnacal_new_build_equation_terms",
                                    "_vnacal_new_get_parameter", "vnacal_new_alloc", "vnacal_new_free",
                                    "vnacal_new_add_single_reflect_m"],
                         bound="%s %dx%d, 1 frequency, reflect standards on ports 1 and 2; measured values and the refused handle symbolic" % (t, r, c),
                         timeout=200))
    srcs = sorted(set(BASE + SOLVE + common_sources()))
    for (t, r, c) in types:
        if t in ("VNACAL_T16", "VNACAL_U16"):
            continue        # a 1x1 reflect measurement is not a valid shape for the 16-term types (would be vacuous)
        for me in (0, 1):
            d = CUT + ["-DCAL_TYPE=%s" % t, "-DCAL_ROWS=%d" % r, "-DCAL_COLS=%d" % c] + (["-DWITH_M_ERROR"] if me else [])
            J.append(V.Job("solve_too_few.%s_%dx%d%s" % (t[7:], r, c, "_merror" if me else ""), H, "h_solve_too_few",
                           srcs, defines=d, unwind=20, union_struct=True, kind="bounded",
                           canary=(t == "VNACAL_T8" and not me),
                           functions=["vnacal_new_solve", "_vnacal_new_solve_internal", "_vnacal_new_solve_simple",
                                      "_vnacal_new_solve_init", "_vnacal_new_solve_free",
                                      "_vnacal_new_solve_calc_weights"],
                           bound="%s %dx%d, one reflect standard (too few), m_error %s; values symbolic" % (t, r, c, "on" if me else "off"),
                           timeout=200, cbmc_flags=["--slice-formula"]))
    ksrcs = [x for x in srcs if x not in ("vnacommon_qrsolve.c", "vnacommon_mldivide.c")]
    for t in ("VNACAL_UE14", "VNACAL_E12"):
        d = CUT + ["-DCAL_TYPE=%s" % t, "-DCAL_ROWS=2", "-DCAL_COLS=2", "-DKERNEL_CONTRACTS"]
        J.append(V.Job("solve_uneven.%s_2x2" % t[7:], H, "h_solve_uneven", ksrcs, defines=d, unwind=20, union_struct=True,
                       kind="bounded", canary=(t == "VNACAL_UE14"),
                       functions=["vnacal_new_solve", "_vnacal_new_solve_internal", "_vnacal_new_solve_simple"],
                       bound="%s 2x2, short/open/match on port 2, through, short on port 1 (column 1 short of equations); values symbolic; "
                             "linear kernels by assumed contract (any rank <= min(m,n), any determinant)" % t,
                       timeout=200, cbmc_flags=["--slice-formula"]))
    usrcs = [x for x in ksrcs if x not in ("vnacommon_qr.c", "vnacommon_qrsolve2.c")] + \
        ["vnacal_make_unknown_parameter.c", "vnacal_delete_parameter.c", "vnacal_new_set_iteration_limit.c"]
    for t in (("VNACAL_T8",) if tier == "quick" else ("VNACAL_T8", "VNACAL_U8", "VNACAL_TE10")):
        d = CUT + ["-DCAL_TYPE=%s" % t, "-DCAL_ROWS=2", "-DCAL_COLS=2", "-DKERNEL_CONTRACTS"]
        J.append(V.Job("solve_too_few_unknown.%s_2x2" % t[7:], H, "h_solve_too_few_unknown", usrcs, defines=d, unwind=20, union_struct=True,
                       kind="bounded", canary=(t == "VNACAL_T8"),
                       functions=["vnacal_new_solve", "_vnacal_new_solve_internal", "_vnacal_new_solve_auto (count test)",
                                  "_vnacal_new_solve_is_trl"],
                       bound="%s 2x2, through + short@1 + open@1 + two unknown reflects on port 2 (one equation short); values symbolic; "
                             "linear kernels by assumed contract" % t,
                       timeout=300, cbmc_flags=["--slice-formula"]))
    J.append(V.Job("refused_unknown.T8_2x2", H, "h_refused_unknown", BASE + ["vnacal_make_unknown_parameter.c", "vnacal_delete_parameter.c"],
                   defines=CUT + ["-DCAL_TYPE=VNACAL_T8", "-DCAL_ROWS=2", "-DCAL_COLS=2"], unwind=14, union_struct=True, kind="bounded",
                   functions=["_vnacal_new_add_common", "_vnacal_new_get_parameter", "vnacal_new_add_double_reflect_m"],
                   bound="T8 2x2, double reflect with a valid unknown first parameter and an invalid second handle", timeout=200))
    J.append(V.Job("refused_set_frequency.T8_1x1", H, "h_refused_set_frequency",
                   BASE + ["vnacal_make_vector_parameter.c", "vnacal_delete_parameter.c"],
                   defines=CUT + ["-DCAL_TYPE=VNACAL_T8", "-DCAL_ROWS=1", "-DCAL_COLS=1"], unwind=14, union_struct=True, kind="bounded",
                   functions=["vnacal_new_set_frequency_vector", "_vnacal_new_check_all_frequency_ranges"],
                   bound="T8 1x1, a reflect with a vector parameter over 1..2 GHz in use; new frequencies 3..5 GHz", timeout=200))
    tsrcs = sorted(set(srcs + ["vnacal_make_unknown_parameter.c", "vnacal_delete_parameter.c"]))
    for t in (("VNACAL_T8",) if tier == "quick" else ("VNACAL_T8", "VNACAL_U8", "VNACAL_TE10", "VNACAL_UE10")):
        for v in (0, 1, 2, 3, 4):
            J.append(V.Job("is_trl.%s_v%d" % (t[7:], v), H, "h_is_trl", tsrcs,
                           defines=CUT + ["-DCAL_TYPE=%s" % t, "-DCAL_ROWS=2", "-DCAL_COLS=2", "-DTRL_VARIANT=%d" % v],
                           unwind=20, union_struct=True, kind="bounded", canary=(v == 0 and t == "VNACAL_T8"),
                           functions=["_vnacal_new_solve_is_trl", "classify_standard"],
                           bound="%s 2x2, through + %s + line with two unknown parameters; measured values symbolic" %
                                 (t, ("double reflect", "single reflect on port 2 (full M)", "single reflect on port 1 (1x1 M)",
                                      "double reflect unknown/short", "double reflect short/unknown")[v]),
                           timeout=300))
    # minimal sets of standards WITH a noise model: no V matrices exist, the auto solver's save/restore helpers cope;
    # and the consistency test has nothing to reject (p-value 1: job of C18 re-run here)
    for t in (["VNACAL_T8", "VNACAL_UE14"] if tier == "quick" else ["VNACAL_T8", "VNACAL_U8", "VNACAL_TE10", "VNACAL_UE10", "VNACAL_UE14", "VNACAL_E12"]):
        for over in (0, 1):
            J.append(V.Job("v_matrices.%s_%s" % (t[7:], "overdetermined" if over else "exact"), "vnacal/c20_vm.c", "h_v_matrices",
                           sorted(set(BASE + [x for x in SOLVE if x != "vnacal_new_solve_auto.c"] + common_sources())),
                           defines=CUT + ["-DCAL_TYPE=%s" % t, "-DOVERDETERMINED=%d" % over], unwind=16, union_struct=True,
                           kind="bounded", canary=(t == "VNACAL_T8" and over == 0),
                           functions=["alloc_v_matrices", "save_v_matrices", "restore_v_matrices", "_vnacal_new_solve_init"],
                           bound="%s 1x1, short/open/match%s, noise model on; concrete measurements" % (t, " + a fourth known reflect" if over else ""),
                           timeout=300))
    import C18
    for j in C18.jobs(tier):
        if j.name.startswith("pvalue_df0."):
            j.name = "minimal_set_m_error." + j.name
            j.canary = False
            j.imported = True
            J.append(j)
    # which cells of a multi-port standard produce equations is decided by the connectivity closure of its S matrix:
    # a lost transitive connection drops equations of a determining set (same job as C17, re-run under this id)
    import C17
    for j in C17.connectivity_jobs(tier):
        j.name = "equation_cells." + j.name
        j.canary = False
        j.imported = True
        J.append(j)
    return J


ASSUME = [
    "the vnacal_new_t is built through the real API on concrete small shapes (not an arbitrary well-formed object): the counting invariant is checked along these histories, with symbolic measured values",
    "double complex compiled as double; -Dunion=struct; vnaproperty_delete by contract stub; qsort: CBMC library model",
    "NOT covered: 'every determining set solves and corrects exactly' (numerical rank / accuracy), solve_auto / TRL paths",
]
TRUSTED = ["CBMC 6.11", "stubs/verif_err.c", "stubs/verif_libc.c (insque/remque exact models)"]


def main(tier, only=None):
    J = jobs(tier)
    if only:
        J = [j for j in J if re.search(only, j.name)]
    return V.run_property("C20", J, tier, level="proof", assumptions=ASSUME, trusted_base=TRUSTED,
                          min_obligations=100,
                          technique="CBMC contract harnesses on real add/solve histories: equation-count invariant, EDOM on too few standards, object unchanged, no leak")

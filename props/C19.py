"""C19 -- linear systems: the structural clauses of the LU kernel (stability itself is out of reach)."""
import re
import vdriver as V

H = "c19.c"


def jobs(tier):
    J = []
    for e in ("h_lu_row_scaling", "h_lu_row_scaling3", "h_lu_pivot_rule", "h_lu_zero_pivot"):
        J.append(V.Job(e[2:], H, e, ["vnacommon_lu.c"], stubs=["verif_libc.c"], unwind=6, kind="bounded", canary=True,
                       functions=["_vnacommon_lu"],
                       bound={"h_lu_row_scaling": "2x2 witness matrix, rows scaled by 2^(10k), k in -3..3 (49 scalings)",
                              "h_lu_row_scaling3": "3x3 witness matrix, each row scaled by 2^(10k), k in -3..3 (21 variants)",
                              "h_lu_pivot_rule": "all 256 2x2 matrices with entries from {1,2,3,100} (exhaustive; a symbolic version does not finish)",
                              "h_lu_zero_pivot": "all finite 2x2 matrices with a zero first column or a zero first row"}[e],
                       timeout=200, cbmc_flags=["--no-leak"]))
    J.append(V.Job("qrsolve_rank", H, "h_qrsolve_rank", ["vnacommon_qrsolve.c"], stubs=["verif_libc.c"], defines=["-DH_QRSOLVE"],
                   unwind=6, kind="bounded", canary=True, functions=["_vnacommon_qrsolve (rank decision)"],
                   bound="3x2 system, one right-hand side; the diagonal of R left by the factorisation (assumed contract), A and b: all doubles",
                   timeout=300, cbmc_flags=["--no-leak", "--slice-formula"]))
    J.append(V.Job("minverse_singular", H, "h_minverse_singular", ["vnacommon_minverse.c"], stubs=["verif_libc.c"], defines=["-DH_MINVERSE"],
                   unwind=6, kind="bounded", canary=True, functions=["_vnacommon_minverse (substitution after the factorisation)"],
                   bound="2x2; any L, U within +-1e6 with an exactly zero first or last pivot, either row order (factorisation by assumed contract)",
                   timeout=600, cbmc_flags=["--no-leak"]))
    import C20
    for t in (("VNACAL_T8", "VNACAL_U8") if tier == "quick" else ("VNACAL_T8", "VNACAL_U8", "VNACAL_TE10", "VNACAL_UE10", "VNACAL_T16", "VNACAL_U16")):
        J.append(V.Job("ab_reduction.%s" % t[7:], "vnacal/c19_ab.c", "h_ab_reduction", C20.BASE, defines=C20.CUT + ["-DCAL_TYPE=%s" % t],
                       unwind=14, union_struct=True, kind="bounded", canary=(t == "VNACAL_T8"),
                       functions=["_vnacal_new_add_common (a/b -> m reduction and its singularity test)", "vnacal_new_add_through"],
                       bound="%s 2x2, 2 frequencies, through given in a/b form; a, b values and the kernel's determinant per frequency symbolic (full double domain)" % t,
                       timeout=300))
    import C18
    for j in C18.jobs("quick"):
        if j.name == "simple_weight_index.UE14":
            j.name = "solve_simple_singular.UE14"
            j.defines = j.defines + ["-DDET_SYMBOLIC"]
            j.canary = False
            j.imported = True       # shares h_simple_weight_index with C18: the probes of the other variant are not reachable here
            j.functions = ["_vnacal_new_solve_simple (determinant test of the exactly determined route)"]
            j.bound = "UE14 2x2, two exactly determined systems; the kernel's determinant symbolic (zero, NaN or any normal number)"
            J.append(j)
        if j.name == "simple_weight_index_overdetermined.UE14":
            j.name = "solve_simple_rank_deficient.UE14"
            j.defines = j.defines + ["-DRANK_SYMBOLIC"]
            j.canary = False
            j.imported = True
            j.functions = ["_vnacal_new_solve_simple (rank test of the over-determined route)"]
            j.bound = "UE14 2x2, two over-determined systems; the rank reported by the QR kernel symbolic (0..unknowns)"
            J.append(j)
    # E12: the UE14 -> E12 conversion divides by every Um entry of each column system
    for (r, c) in (((2, 1), (2, 2)) if tier == "quick" else ((1, 1), (2, 1), (1, 2), (2, 2), (3, 2), (3, 3))):
        J.append(V.Job("e12_convert.%dx%d" % (r, c), "vnacal/c19_e12.c", "h_e12_convert", ["vnacal_layout.c"],
                       defines=["-DCAL_ROWS=%d" % r, "-DCAL_COLS=%d" % c, "-DVERIF_BUILTIN_MEM"], unwind=12, union_struct=True,
                       kind="proof", canary=((r, c) == (2, 2)), functions=["convert_ue14_to_e12"],
                       bound="E12 %dx%d; every term any number (loops bounded by the concrete dimensions)" % (r, c),
                       timeout=300, cbmc_flags=["--no-leak", "--slice-formula"]))
    return J


ASSUME = [
    "double complex compiled as double (shim): magnitudes are |x| of real values",
    "NOT covered: backward stability / residual size, QR orthogonality and least-squares minimality, n > 2, 'astronomically large output' of the n-port conversions, that every call site tests the determinant: decided for the a/b reduction of vnacal_new_add_* (ab_reduction, kernel by assumed contract with any determinant) and for vnacal_apply_m (C01 apply_frame); solve_simple's LU route (solve_simple_singular) and QR route (solve_simple_rank_deficient); solve_auto by reading only",
]
TRUSTED = ["CBMC 6.11 IEEE-754 encoding", "CBMC models of ldexp / isnormal"]


def main(tier, only=None):
    J = jobs(tier)
    if only:
        J = [j for j in J if re.search(only, j.name)]
    return V.run_property("C19", J, tier, level="proof", assumptions=ASSUME, trusted_base=TRUSTED,
                          min_obligations=20,
                          technique="CBMC contract harnesses on the real _vnacommon_lu: scaled-pivot rule, permutation, zero-pivot determinant")

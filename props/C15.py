"""C15 -- vnadata_t behaves like a typed frequency x rows x columns array with z0 modes."""
import itertools
import re
import vdriver as V

SRCS = ["vnadata_alloc.c", "vnadata_add_frequency.c", "vnadata_get_z0.c", "vnadata_set_z0.c",
        "vnadata_get_fz0.c", "vnadata_set_fz0.c", "vnadata_set_z0_vector.c",
        "vnadata_set_fz0_vector.c", "vnadata_set_all_z0.c", "vnadata_get_z0_vector.c",
        "vnadata_get_fz0_vector.c", "vnadata_has_fz0.c", "vnadata_convert_to_fz0.c",
        "vnadata_convert_to_z0.c"]
H = "vnadata/c15.c"


def shape(rows=None, columns=None, freqs=None, pa=None, ma=None, fa=None, fz0=None):
    d = []
    for k, v in (("ROWS", rows), ("COLUMNS", columns), ("FREQS", freqs), ("PA", pa), ("MA", ma),
                 ("FA", fa), ("FZ0", fz0)):
        if v is not None:
            d.append("-DVD_FIX_%s=%d" % (k, v))
    return d


def tag(d):
    out = []
    for x in d:
        m = re.match(r"-D(?:VD_FIX_|H_NEW_|H_FIX_|VD_)?(\w+)=(-?\d+)$", x)
        if m:
            out.append("%s%s" % (m.group(1).lower(), m.group(2).replace("-", "m")))
    return "_".join(out)


def alloc_shapes(tier):
    """concrete (pa, ma, fa, fz0) storage shapes; logical sizes stay symbolic inside them"""
    if tier == "quick":
        pas, mas, fas = (0, 2, 3), (0, 4, 5), (0, 2, 3)
        combos = [(0, 0, 0), (2, 4, 2), (3, 5, 3), (0, 0, 2)]
    else:
        combos = list(itertools.product((0, 1, 2, 3), (0, 1, 2, 4, 5), (0, 1, 2, 3)))
    return [(pa, ma, fa, z) for (pa, ma, fa) in combos for z in (0, 1)]


def jobs(tier):
    J = []
    small = ["-DVD_R_MAX=2", "-DVD_F_MAX=2"]
    fn_cells = ["vnadata_get_cell", "vnadata_set_cell", "vnadata_get_matrix", "vnadata_set_matrix",
                "vnadata_get_to_vector", "vnadata_set_from_vector", "_vnadata_bounds_error"]
    fn_freq = ["vnadata_get_frequency", "vnadata_set_frequency", "vnadata_get_fmin", "vnadata_get_fmax",
               "vnadata_get_frequency_vector", "vnadata_set_frequency_vector"]
    fn_z0 = ["vnadata_get_z0", "vnadata_set_z0", "vnadata_get_fz0", "vnadata_set_fz0",
             "vnadata_set_z0_vector", "vnadata_set_fz0_vector", "vnadata_set_all_z0",
             "vnadata_get_z0_vector", "vnadata_get_fz0_vector", "vnadata_has_fz0",
             "_vnadata_convert_to_fz0", "_vnadata_convert_to_z0"]
    # --- operations that do not allocate: logical sizes symbolic inside each storage shape
    first = True
    for (pa, ma, fa, z) in alloc_shapes(tier):
        d = small + shape(pa=pa, ma=ma, fa=fa, fz0=z)
        b = "bounded(rows,columns<=2, frequencies<=2; storage shape pa=%d ma=%d fa=%d concrete)" % (pa, ma, fa)
        for entry, fns in (("h_cell", fn_cells), ("h_matrix", fn_cells), ("h_frequency", fn_freq),
                           ("h_set_type", ["vnadata_set_type", "validate_type", "vnadata_get_type",
                                           "vnadata_get_rows", "vnadata_get_columns",
                                           "vnadata_get_frequencies"]),
                           ("h_free", ["vnadata_free"])):
            J.append(V.Job("%s.%s" % (entry[2:], tag(d)), H, entry, SRCS, defines=d, unwind=6,
                           union_struct=True, kind="bounded", canary=((pa, ma, fa) == (2, 4, 2)),
                           functions=fns, bound=b))
        for op in range(10):
            dd = d + ["-DH_FIX_OP=%d" % op]
            J.append(V.Job("z0.op%d.%s" % (op, tag(d)), H, "h_z0", SRCS, defines=dd, unwind=6,
                           union_struct=True, kind="bounded", canary=((pa, ma, fa) == (2, 4, 2)),
                           functions=fn_z0, bound=b))
    # --- allocating operations: fully concrete shapes (realloc with a symbolic size is out of reach)
    J += resize_jobs(tier)
    for n_ in (65536, 46341):
        J.append(V.Job("resize.huge_%d" % n_, H, "h_resize_huge", SRCS, defines=small + ["-DHUGE_N=%d" % n_, "-DVERIF_BUILTIN_MEM"], unwind=6,
                       union_struct=True, kind="bounded", canary=False,
                       functions=["vnadata_resize (size arithmetic)"],
                       bound="1x1x1 object resized to %d x %d x 1 (concrete)" % (n_, n_), timeout=200))
    # vnadata_convert in place (N x N -> Zin reshapes the object to 1 x N): the result is well formed, in particular
    # the vacated cells hold their initial values for the next resize (same jobs as C05, re-run under this id)
    import C05
    for j in C05.jobs("quick"):
        if j.name.endswith("_inplace") and ("rows2_columns2" in j.name or "rows3_columns3" in j.name):
            j.name = "convert_inplace." + j.name
            j.canary = False
            j.imported = True
            J.append(j)
    return J


def resize_jobs(tier):
    J = []
    fns = ["vnadata_resize", "vnadata_init", "validate_type", "_vnadata_extend_p", "_vnadata_extend_m",
           "_vnadata_extend_f", "vnadata_set_all_z0"]
    if tier == "quick":
        pre = [(0, 0, 0, 0, 0, 0), (1, 1, 1, 1, 1, 1), (2, 2, 2, 2, 4, 2), (2, 2, 1, 3, 5, 3),
               (1, 2, 2, 2, 2, 2), (0, 0, 2, 0, 0, 2)]
        new = [(0, 0, 0), (1, 1, 1), (2, 2, 2), (1, 2, 2), (2, 1, 0), (3, 3, 3), (-1, 1, 1), (1, 1, -1)]
    else:
        pre = []
        for r, c, f in itertools.product(range(3), range(3), (0, 2)):
            for sl in (0, 1):
                pre.append((r, c, f, max(r, c) + sl, r * c + sl, f + sl))
        new = [(nr, nc, nf) for nr in range(4) for nc in range(4) for nf in (0, 1, 3)] + \
            [(-1, 1, 1), (1, -1, 1), (1, 1, -1)]
    seen = set()
    for (r, c, f, pa, ma, fa) in pre:
        for z in (0, 1):
            for (nr, nc, nf) in new:
                d = ["-DVD_R_MAX=3", "-DVD_F_MAX=3"] + shape(r, c, f, pa, ma, fa, z) + \
                    ["-DH_FIX_NEW", "-DH_NEW_ROWS=%d" % nr, "-DH_NEW_COLUMNS=%d" % nc, "-DH_NEW_FREQS=%d" % nf]
                b = "concrete shape %dx%dx%d (alloc %d/%d/%d) -> %dx%dx%d; values, type symbolic" % (
                    r, c, f, pa, ma, fa, nr, nc, nf)
                for entry in ("h_resize", "h_init"):
                    if entry == "h_init" and (nr, nc, nf) not in ((1, 1, 1), (2, 2, 2), (0, 0, 0), (-1, 1, 1), (3, 3, 3), (1, 3, 1)):
                        continue
                    J.append(V.Job("%s.%s" % (entry[2:], tag(d)), H, entry, SRCS, defines=d, unwind=5,
                                   union_struct=True, kind="bounded",
                                   canary=((nr, nc, nf) in ((2, 2, 2), (-1, 1, 1)) and (r, c, f) == (1, 1, 1)),
                                   functions=fns, bound=b))
    # add_frequency: crossing the allocation step (0 -> 50 entries, 50 -> 75)
    af = [(1, 1, 0, 1, 1, 0), (1, 1, 1, 2, 2, 2)]
    if tier != "quick":
        af += [(1, 1, 1, 1, 1, 1), (0, 0, 0, 0, 0, 0), (1, 1, 2, 1, 1, 2)]
    for (r, c, f, pa, ma, fa) in af:
        for z in (0, 1):
            d = ["-DVD_R_MAX=1", "-DVD_F_MAX=2", "-DVD_FA_MAX=51"] + shape(r, c, f, pa, ma, fa, z)
            J.append(V.Job("add_frequency.%s" % tag(d), H, "h_add_frequency", SRCS, defines=d, unwind=52,
                           union_struct=True, kind="bounded", canary=(f == 1 and fa == 2),
                           functions=["vnadata_add_frequency", "_vnadata_extend_f"],
                           bound="concrete shape %dx%dx%d alloc %d/%d/%d" % (r, c, f, pa, ma, fa),
                           timeout=900))
    return J


ASSUME = [
    "double complex compiled as double (shim complex.h): imaginary parts are not modelled (CBMC 6.11 aborts on functions returning double complex)",
    "-Dunion=struct: the z0 union of vnadata_internal_t is compiled as a struct (CBMC 6.11 loses pointers read through a non-first union member); the code never type-puns between the two members",
    "_vnaerr_verror replaced by its contract stub (stubs/verif_err.c); the real body is checked against that contract under C11",
    "malloc/calloc/realloc do not fail in these runs (allocation failure is C12)",
    "shape-bounded: logical and allocated sizes as listed in coverage.bounds; induction over histories holds within that bound",
    "valid object pointers only (vdp non-NULL, caller vectors large enough), as the property states",
]
TRUSTED = ["CBMC 6.11 C front end, libc models (malloc, calloc, realloc, free, memset, memcpy)",
           "stubs/verif_err.c (_vnaerr_verror contract)", "stubs/verif_libc.c (strerror)",
           "harness/vnadata/wf_vnadata.h (representation invariant + abstract view, reviewed by hand)"]


def main(tier, only=None):
    J = jobs(tier)
    if only:
        J = [j for j in J if re.search(only, j.name)]
    return V.run_property("C15", J, tier, level="proof", assumptions=ASSUME, trusted_base=TRUSTED,
                          min_obligations=100,
                          technique="CBMC contract harnesses: representation invariant wf_vnadata + abstract-view postconditions on the real vnadata_* functions")

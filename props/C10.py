"""C10 -- frequency interpolation exact at the given points; out-of-range use refused."""
import re
import vdriver as V

H = "vnacal/c10.c"
ERR = ["vnacal_error.c"]


def jobs(tier):
    J = []
    # --- range acceptance: loop-free, full double domain => complete proofs
    J.append(V.Job("range.parameter", H, "h_range_parameter",
                   ["vnacal_parameter.c", "vnacal_layout.c"] + ERR,
                   defines=["-DH_INCLUDE_NEW_PARAMETER"], unwind=4, union_struct=True, kind="proof",
                   canary=True, functions=["check_single_frequency_range", "_vnacal_get_parameter_frange"],
                   bound="none: all doubles", timeout=900))
    J.append(V.Job("range.correlated", H, "h_range_correlated",
                   ["vnacal_parameter.c", "vnacal_layout.c"] + ERR,
                   defines=["-DH_INCLUDE_NEW_PARAMETER"], unwind=4, union_struct=True, kind="proof",
                   functions=["check_single_frequency_range", "_vnacal_get_parameter_frange (correlated: sigma grid)"],
                   bound="none: all doubles (two-point sigma grid, scalar guess)", timeout=900))
    # the caller of the range check: the look-up every vnacal_new_add_* call makes when the frequencies are already known
    for kind, what in ((0, "vector parameter"), (1, "correlated parameter, sigma grid symbolic"), (2, "correlated parameter over a vector guess, guess symbolic")):
        J.append(V.Job("range.get_parameter.kind%d" % kind, H, "h_range_get_parameter",
                       ["vnacal_parameter.c", "vnacal_layout.c"] + ERR,
                       defines=["-DH_INCLUDE_NEW_PARAMETER", "-DVERIF_BUILTIN_MEM", "-DGP_KIND=%d" % kind],
                       unwind=10, union_struct=True, kind="proof", canary=(kind == 1),
                       functions=["_vnacal_new_get_parameter", "get_parameter_node", "check_single_frequency_range"],
                       bound="none: all doubles (%s)" % what, cbmc_flags=["--no-leak"], timeout=900))
    # every parameter of the collection is checked: the vector parameter's handle (bucket) and the number of parameters enumerated
    for vec, npar in ((3, 3), (7, 2), (1, 5), (4, 2)) if tier == "quick" else [(v, n) for v in (1, 2, 3, 4, 7) for n in (2, 3, 5)]:
        J.append(V.Job("range.all.vec%d_n%d" % (vec, npar), H, "h_range_all",
                       ["vnacal_parameter.c", "vnacal_layout.c"] + ERR,
                       defines=["-DH_INCLUDE_NEW_PARAMETER", "-DVERIF_BUILTIN_MEM", "-DVEC_INDEX=%d" % vec, "-DALL_NPARAM=%d" % npar],
                       unwind=10, union_struct=True, kind="bounded", canary=((vec, npar) == (3, 3)),
                       functions=["_vnacal_new_check_all_frequency_ranges", "check_single_frequency_range", "hash_insert"],
                       bound="collection of %d parameters (scalars + one vector parameter with handle %d, 8 buckets); all four range values: all doubles" % (npar, vec),
                       timeout=600))
    J.append(V.Job("range.m_error", H, "h_range_m_error",
                   ["vnacal_new_set_m_error.c", "vnacal_layout.c"] + ERR,
                   defines=["-DH_M_ERROR"], unwind=4, union_struct=True, kind="proof", canary=True,
                   functions=["vnacal_new_set_m_error"], bound="none: all doubles (two-point noise grid)",
                   timeout=900))
    J.append(V.Job("range.m_error_one_point", H, "h_m_error_one_point",
                   ["vnacal_new_set_m_error.c", "vnacal_layout.c"] + ERR,
                   defines=["-DH_M_ERROR"], unwind=4, union_struct=True, kind="proof", canary=True,
                   functions=["vnacal_new_set_m_error"], bound="none: all doubles (single noise point, frequency vector given or NULL)",
                   timeout=900))
    J.append(V.Job("range.apply_bounds", H, "h_range_apply_bounds", ["vnacal_calibration.c"],
                   defines=["-DH_APPLY_BOUNDS"], unwind=4, union_struct=True, kind="proof", canary=True,
                   functions=["_vnacal_calibration_get_fmin_bound", "_vnacal_calibration_get_fmax_bound"],
                   bound="none: all doubles", timeout=900))
    J.append(V.Job("range.get_parameter_value", H, "h_range_get_parameter_value",
                   ["vnacal_get_parameter_value.c", "vnacal_parameter.c"] + ERR,
                   defines=["-DH_GET_PARAMETER_VALUE"], unwind=4, union_struct=True, kind="proof",
                   canary=True, functions=["vnacal_get_parameter_value", "_vnacal_get_parameter"],
                   bound="none: all doubles", timeout=900))
    J.append(V.Job("range.get_value_unsolved", H, "h_get_value_unsolved",
                   ["vnacal_get_parameter_value.c", "vnacal_parameter.c"] + ERR,
                   defines=["-DH_GET_PARAMETER_VALUE"], unwind=4, union_struct=True, kind="proof",
                   canary=False, functions=["vnacal_get_parameter_value"],
                   bound="none: any query frequency; unknown parameter left by a solve without frequencies", timeout=300))
    # --- spline: exact at knots (bounded number of segments)
    for n in ((1, 2) if tier == "quick" else (1, 2, 3, 4)):
        J.append(V.Job("spline.knots.n%d" % n, H, "h_spline_knots", ["vnacommon_spline.c"],
                       defines=["-DH_SPLINE", "-DSPLINE_SEGMENTS=%d" % n], unwind=n + 3, kind="bounded",
                       canary=(n == 1), functions=["_vnacommon_spline_eval"],
                       bound="bounded(%d segments); coefficients |c| <= 1e30, knots in [0,1e12] >= 1 mHz apart" % n,
                       timeout=600))
        J.append(V.Job("spline.bad_x.n%d" % n, H, "h_spline_bad_x", ["vnacommon_spline.c"],
                       defines=["-DH_SPLINE", "-DSPLINE_SEGMENTS=%d" % n], unwind=n + 3, kind="bounded",
                       canary=(n == 2), functions=["_vnacommon_spline_calc"],
                       bound="bounded(%d segments)" % n, timeout=600))
        if n >= 2:
            J.append(V.Job("spline.calc_frame.n%d" % n, H, "h_spline_calc_frame", ["vnacommon_spline.c"],
                           defines=["-DH_SPLINE", "-DSPLINE_SEGMENTS=%d" % n], unwind=n + 3, kind="bounded",
                           canary=(n == 2), functions=["_vnacommon_spline_calc"],
                           bound="bounded(%d segments), values sliced away" % n, timeout=600,
                           cbmc_flags=["--slice-formula"]))
    J.append(V.Job("spline.linear", H, "h_spline_linear", ["vnacommon_spline.c"],
                   defines=["-DH_SPLINE", "-DSPLINE_SEGMENTS=1"], unwind=4, kind="proof", canary=True,
                   functions=["_vnacommon_spline_calc"], bound="none: all doubles (two knots)", timeout=600,
                   cbmc_flags=["--slice-formula"]))
    # --- rfi: knots (bounded n), search (unbounded, loop contracts), window indices (bounded)
    J.append(V.Job("rfi.knots", H, "h_rfi_knots", ["vnacal_rfi.c"],
                   defines=["-DH_RFI_KNOTS", "-DRFI_N=4", "-DVERIF_CUT_rfi_after_search=__CPROVER_assume(0)"], unwind=6, kind="bounded", canary=True,
                   functions=["_vnacal_rfi"], bound="bounded(n<=4 knots), any hint", timeout=900))
    J.append(V.Job("rfi.between", H, "h_rfi_between", ["vnacal_rfi.c"], stubs=["verif_libc.c"],
                   defines=["-DH_RFI_KNOTS", "-DRFI_N=4"], unwind=8, kind="bounded", canary=False,
                   functions=["_vnacal_rfi (values between knots: witnesses)"],
                   bound="bounded: concrete tables of 1/(1+x) on 2, 3 and 5 knots, 10 concrete queries between knots; witnesses, not a proof",
                   timeout=300, cbmc_flags=["--no-leak"]))
    J.append(V.Job("rfi.search", H, "h_rfi_search", ["vnacal_rfi.c"],
                   defines=["-DH_RFI_SEARCH", "-DRFI_SEARCH_NMAX=64", "-DVERIF_CUT_rfi_after_search=__CPROVER_assume(0)"], unwind=None, kind="proof",
                   canary=True, dfcc=dict(enforce=[], loops=True),
                   require=[r"_vnacal_rfi\.loop_invariant_step\.\d", r"_vnacal_rfi\.loop_decreases\.\d",
                            r"rfi: the segment found brackets x"],
                   functions=["_vnacal_rfi (search loops: loop contracts)"],
                   bound="array length n <= 64 (object size only; loop iterations not unwound: closed by loop contract)",
                   timeout=300, cbmc_flags=["--no-leak"]))
    combos = [(2, 2), (3, 3), (4, 4), (5, 5)] if tier == "quick" else \
        [(n, m) for n in range(2, 7) for m in range(1, min(n, 5) + 1)]
    for (n, m) in combos:
        J.append(V.Job("rfi.window.n%d_m%d" % (n, m), H, "h_rfi_window", ["vnacal_rfi.c"],
                       defines=["-DH_RFI_WINDOW", "-DRFI_N=%d" % n, "-DRFI_FIX_N=%d" % n, "-DRFI_FIX_M=%d" % m],
                       unwind=8, kind="bounded", canary=(n == 3 and m == 3), functions=["_vnacal_rfi"],
                       bound="bounded(n=%d, m=%d)" % (n, m), timeout=300, cbmc_flags=["--slice-formula"]))
    # "calibration error terms used by apply": evaluated at the requested frequency, over the calibration's own grid, with an
    # order that depends on the calibration only (recording _vnacal_rfi contract in the apply frame of C01, re-run here)
    import C01
    for j in C01.jobs(tier):
        if re.match(r"apply_frame\.(T8|UE14|E12)_f2$", j.name):
            j.name = "error_terms." + j.name
            j.canary = False
            j.imported = True
            J.append(j)
    return J


ASSUME = [
    "double complex compiled as double (shim complex.h); interpolated VALUES between knots are floating point and not examined",
    "-Dunion=struct for vnacal_parameter_t (CBMC 6.11 union-pointer limitation)",
    "_vnaerr_verror by contract stub; _vnacommon_spline_* by recording stub in range.m_error; _vnacal_rfi by recording stub in range.get_parameter_value",
    "knot exactness of _vnacal_rfi for n > 4 follows from the unbounded bracketing obligations plus strict ascent of the knots (argument in DESIGN.md), checked directly only for n <= 4",
    "the comparison 'request < fmin_bound || request > fmax_bound' in _vnacal_apply_common is restated in the harness (the two bound functions are the real code)",
]
TRUSTED = ["CBMC 6.11 IEEE-754 bit-precise float encoding", "stubs/verif_err.c", "stubs/verif_libc.c",
           "DFCC loop-contract instrumentation (goto-instrument --dfcc --apply-loop-contracts)"]


def main(tier, only=None):
    J = jobs(tier)
    if only:
        J = [j for j in J if re.search(only, j.name)]
    return V.run_property("C10", J, tier, level="proof", assumptions=ASSUME, trusted_base=TRUSTED,
                          min_obligations=50,
                          technique="CBMC: full-double-domain contracts on the range tests, DFCC loop contracts on the _vnacal_rfi search, bounded knot-exactness harnesses")

"""C11 -- failures are reported as documented and leave objects unchanged and usable."""
import re
import vdriver as V
import C15
import C16
import C20


def jobs(tier):
    J = []
    J.append(V.Job("verror", "c11_verror.c", "h_verror", ["vnaerr_verror.c"], stubs=["verif_libc.c"],
                   unwind=4, shim=False, kind="proof", canary=True, functions=["_vnaerr_verror"],
                   bound="none: all categories, all errno values, callback set or not, vasprintf failing or not"))
    setters = [("h_set_et_tolerance", "vnacal_new_set_et_tolerance", "vnacal_new_set_et_tolerance.c"),
               ("h_set_p_tolerance", "vnacal_new_set_p_tolerance", "vnacal_new_set_p_tolerance.c"),
               ("h_set_iteration_limit", "vnacal_new_set_iteration_limit", "vnacal_new_set_iteration_limit.c"),
               ("h_set_pvalue_limit", "vnacal_new_set_pvalue_limit", "vnacal_new_set_pvalue_limit.c"),
               ("h_set_fprecision", "vnacal_set_fprecision", "vnacal_set_fprecision.c"),
               ("h_set_dprecision", "vnacal_set_dprecision", "vnacal_set_dprecision.c")]
    for e, fn, src in setters:
        J.append(V.Job("dfcc." + fn, "vnacal/c11_dfcc.c", e, [src, "vnacal_error.c"], unwind=3,
                       union_struct=True, kind="proof", dfcc=dict(enforce=[fn]),
                       functions=[fn + " (DFCC function contract incl. assigns frame)", "_vnacal_error"],
                       bound="none: all argument values, arbitrary object contents",
                       require=[r"Check ensures clause of contract contract::" + fn,
                                r"Check that .* is assignable"],
                       cbmc_flags=["--no-leak"], timeout=300))
    # refusal clauses proved as part of the data-structure contracts (same harnesses as C15/C16)
    for j in C15.jobs("quick"):
        if re.match(r"(set_type|cell|frequency|z0\.op[1345])\.r_max2_f_max2_pa2_ma4_fa2_fz0[01]$", j.name) or \
                re.match(r"(resize|init)\..*rows1_columns1_freqs1_pa1_ma1_fa1_fz0[01]_new_rows(m1|1)_new_columns1_new_freqs(1|m1)$", j.name):
            j.name = "vnadata." + j.name
            j.canary = False
            j.imported = True
            J.append(j)
    for j in C16.jobs("quick", imports=False):
        if re.match(r"(add_calibration|delete_calibration|query_calibration)\.alloc(1|8)$", j.name) or \
                re.match(r"(delete_parameter|make_parameter)\.alloc(3|8_live4)", j.name):
            j.name = "vnacal." + j.name
            j.canary = False
            j.imported = True
            J.append(j)
    for j in C20.jobs("quick"):
        if re.match(r"add_counts\.(T8|UE14)_2x2_bad|solve_too_few\.(T8|UE14)_2x2|refused_set_frequency\.|refused_unknown\.", j.name):
            j.name = "vnacal_new." + j.name
            j.canary = False
            j.imported = True
            J.append(j)
    # failing exits of _vnacal_new_solve_internal after a successful earlier solve (numeric solvers by assumed contract)
    srcs = [x for x in sorted(set(C20.BASE + C20.SOLVE + C20.common_sources() + ["vnacal_new_set_pvalue_limit.c", "vnacal_make_unknown_parameter.c", "vnacal_delete_parameter.c"]))
            if x not in ("vnacal_new_solve_simple.c", "vnacal_new_solve_auto.c", "vnacal_new_solve_trl.c",
                         "vnacal_new_solve_pvalue.c")]
    variants = [("VNACAL_T8", 1, 1, 1, 0, 0, 0), ("VNACAL_T8", 1, 1, 0, 0, 0, 0), ("VNACAL_T8", 1, 1, 1, 1, 0, 0),
                ("VNACAL_UE14", 1, 1, 1, 0, 0, 0), ("VNACAL_T8", 1, 1, 1, 0, 1, 0), ("VNACAL_T8", 1, 1, 1, 0, 0, 1),
                ("VNACAL_E12", 1, 1, 1, 0, 0, 0), ("VNACAL_E12", 2, 2, 1, 0, 0, 0), ("VNACAL_UE14", 2, 2, 1, 0, 0, 0),
                ("VNACAL_TE10", 2, 2, 1, 0, 0, 0)]
    if tier != "quick":
        variants += [("VNACAL_E12", 2, 1, 1, 0, 0, 0), ("VNACAL_UE10", 2, 2, 1, 0, 0, 0),
                     ("VNACAL_T8", 2, 2, 1, 1, 0, 0), ("VNACAL_U8", 1, 1, 1, 1, 0, 0), ("VNACAL_TE10", 1, 1, 1, 0, 0, 0),
                     ("VNACAL_UE10", 1, 1, 1, 0, 0, 0), ("VNACAL_T8", 1, 1, 0, 1, 0, 0), ("VNACAL_UE14", 1, 1, 1, 1, 0, 0)]
    for (t, r, c, prior, unk, merr, trl) in variants + [("VNACAL_T8", 1, 1, 1, 5, 0, 0), ("VNACAL_T8", 1, 1, 1, 1.5, 0, 0)]:
        d = (["-DPRIOR_POINTS=%d" % (5 if unk == 5 else 1)] if unk in (5, 1.5) else []) + C20.CUT + ["-DCAL_TYPE=%s" % t, "-DCAL_ROWS=%d" % r, "-DCAL_COLS=%d" % c, "-DPRIOR=%d" % prior, "-DIS_TRL=%d" % trl] + \
            (["-DWITH_UNKNOWN"] if unk else []) + (["-DWITH_M_ERROR"] if merr else [])
        J.append(V.Job("solve_frame.%s_%dx%d_prior%d%s%s%s" % (t[7:], r, c, prior, ("_unknown" if unk == 1 else "_unknown_resolved%s" % ("5" if unk == 5 else "1")) if unk else "", "_merror" if merr else "",
                                                                  "_trl" if trl else ""),
                       "vnacal/c11_solve.c", "h_solve_frame", srcs, defines=d, unwind=20, union_struct=True, kind="bounded",
                       canary=(t == "VNACAL_T8" and prior and not unk and not merr and not trl),
                       functions=["vnacal_new_solve", "_vnacal_new_solve_internal", "_vnacal_new_solve_init",
                                  "_vnacal_new_solve_start_frequency", "_vnacal_new_solve_free",
                                  "_vnacal_calibration_alloc", "_vnacal_calibration_free", "convert_ue14_to_e12"],
                       bound="%s %dx%d, 2 frequencies, short/open/match on port 1 (match %s), earlier result %s, m_error %s; "
                             "solver outcome per frequency and all values symbolic" % (t, r, c, "unknown" if unk else "known",
                                                                                     "present" if prior else "absent", "on" if merr else "off"),
                       timeout=300, cbmc_flags=["--slice-formula"]))
    import C12
    entry_, defs_, srcs_, _k, _u = C12.SCRIPTS["vnacal_corr"]
    for c in range(7):
        J.append(V.Job("refused.make_correlated.case%d" % c, C12.H, "h_correlated_refused", srcs_, stubs=C12.STUBS,
                       defines=defs_ + C12.ALLOC + ["-DVERIF_FAIL_AT=0", "-DEXPECT_K=0", "-DS_REFUSALS", "-DREFUSE_CASE=%d" % c],
                       unwind=10, union_struct=True, kind="bounded", canary=(c == 0),
                       unwindset={"qsort.0": 6, "qsort.1": 6, "qsort.2": 6, "prm_ok.0": 10},
                       functions=["vnacal_make_correlated_parameter (refusal paths)"],
                       bound="refusal case %d of harness/c12.c h_correlated_refused (concrete arguments)" % c, timeout=200))
    import C01
    for j in C01.jobs(tier):
        if j.name == "param_hash.deleted_handle":       # deleted handles refused by vnacal_new_add_*, referrers keep working
            j.name = "vnacal_new." + j.name
            j.imported = True
            J.append(j)
    return J


ASSUME = [
    "vasprintf by contract stub in the verror harness (fails with -1 or returns a fresh string)",
    "the refusal/unchanged clauses for vnadata_* and the vnacal tables are those of the C15/C16 harnesses (re-run here); see their assumptions",
    "vnacal_new_add_* build-then-link and failed-solve-is-retryable are checked along the concrete histories of the C20 harnesses (re-run here); not covered: errno/callback behaviour of the file loaders and savers (stdio)",
]
ASSUME.append("solve_frame: the per-frequency numeric solvers (_vnacal_new_solve_simple/_auto/_trl, _is_trl, _calc_pvalue) are replaced by assumed "
              "contracts (fail with one report or fill x_vector; never touch vn_calibration); the frame of _vnacal_new_solve_internal around them is the real code")
TRUSTED = ["CBMC 6.11 DFCC (goto-instrument --dfcc --enforce-contract)", "stubs/verif_err.c", "stubs/verif_libc.c"]


def main(tier, only=None):
    J = jobs(tier)
    if only:
        J = [j for j in J if re.search(only, j.name)]
    return V.run_property("C11", J, tier, level="proof", assumptions=ASSUME, trusted_base=TRUSTED,
                          min_obligations=100,
                          technique="CBMC: contract on the real _vnaerr_verror; DFCC function contracts (requires/ensures/assigns) on the validating setters; refusal-leaves-object-unchanged postconditions of the C15/C16 harnesses")

"""C05 -- vnadata_convert applies the right conversion with the right impedances."""
import os
import re
import subprocess
import vdriver as V
import C15

H = "vnadata/c05.c"
SRCS = C15.SRCS + ["vnadata_convert.c", "vnadata_set_filetype.c", "vnadata_set_fprecision.c",
                   "vnadata_set_dprecision.c", "vnadata_get_type_name.c"]


def gen_stubs():
    wd = os.path.join(V.BUILD, "C05")
    os.makedirs(wd, exist_ok=True)
    out = os.path.join(wd, "conv_stubs.c")
    p = subprocess.run(["python3", os.path.join(V.VERIF, "gen", "gen_conv_stubs.py"),
                        os.path.join(V.SRC, "vnaconv.h"), out], stdout=subprocess.PIPE, stderr=subprocess.PIPE, text=True)
    if p.returncode != 0:
        print("INFRA: stub generation failed: " + (p.stderr or p.stdout)[-500:])
        raise SystemExit(2)
    return out


def type_ok(name, r, c):
    if name in ("S", "Z", "Y"):
        return r == c
    if name in ("T", "U", "H", "G", "A", "B"):
        return r == 2 and c == 2
    if name == "ZIN":
        return r == 1
    return True


def jobs(tier):
    stubs = gen_stubs()
    J = []
    ins = [(2, 2, 2), (3, 3, 1), (1, 1, 2), (1, 2, 1), (2, 2, 0), (0, 0, 1)]
    if tier != "quick":
        ins += [(3, 3, 2), (1, 3, 2), (2, 1, 1)]
    T = dict(UNDEF=0, S=1, T=2, U=3, Z=4, Y=5, H=6, G=7, A=8, B=9, ZIN=10, BAD=11)
    if tier == "quick":
        pairs = [(a, b) for a in ("S", "Z", "T", "H") for b in ("S", "Z", "Y", "T", "A", "ZIN", "BAD")] + \
            [("ZIN", "S"), ("UNDEF", "S"), ("Y", "ZIN"), ("U", "ZIN"), ("B", "G"), ("ZIN", "ZIN"), ("UNDEF", "UNDEF")]
    else:
        names = ["UNDEF", "S", "T", "U", "Z", "Y", "H", "G", "A", "B", "ZIN"]
        pairs = [(a, b) for a in names for b in names + ["BAD"]]
    fns = ["vnadata_convert", "get_fz0_vector", "vnadata_set_filetype", "vnadata_set_fprecision",
           "vnadata_set_dprecision", "vnadata_init", "vnadata_set_z0_vector", "vnadata_set_fz0_vector"]
    for (r, c, f) in ins:
        for z in (0, 1):
            slack = 1 if (r, c) == (3, 3) else 0
            base = ["-DVD_R_MAX=3", "-DVD_F_MAX=2"] + C15.shape(r, c, f, max(r, c) + slack, r * c + slack, f + slack, z)
            # in place: from-type and to-type fully symbolic
            d = base + ["-DH_INPLACE"]
            J.append(V.Job("convert.%s_inplace" % C15.tag(base), H, "h_convert", SRCS + [stubs], defines=d, unwind=11,
                           union_struct=True, kind="bounded", canary=((r, c, f) == (2, 2, 2)), functions=fns,
                           bound="in place, %dx%dx%d; from- and to-type symbolic over all 11x11 (+invalid); values symbolic" % (r, c, f),
                           timeout=300, include_dirs=[os.path.join(V.VERIF, "harness", "vnadata")]))
            # out of place: concrete type pair (allocation sizes of the output must be concrete)
            for (a, b) in pairs:
                if not type_ok(a, r, c):
                    continue
                if tier == "quick" and (r, c, f) not in ((2, 2, 2), (3, 3, 1)) and (a, b) not in (("S", "ZIN"), ("S", "Z"), ("ZIN", "ZIN"), ("UNDEF", "UNDEF")):
                    continue
                d = base + ["-DH_FROM=%d" % T[a], "-DH_TO=%d" % T[b]]
                J.append(V.Job("convert.%s_%sto%s" % (C15.tag(base), a, b), H, "h_convert", SRCS + [stubs], defines=d,
                               unwind=8, union_struct=True, kind="bounded",
                               canary=((r, c, f, z) == (2, 2, 2, 1) and (a, b) in (("S", "Z"), ("S", "BAD"))), functions=fns,
                               bound="out of place, %dx%dx%d, %s -> %s; values symbolic" % (r, c, f, a, b),
                               timeout=300, include_dirs=[os.path.join(V.VERIF, "harness", "vnadata")]))
    return J


ASSUME = [
    "every vnaconv_* function is replaced by a recording contract generated from vnaconv.h (identity, arguments, writes its output cells); what those functions compute is C04",
    "vnadata_set_format by contract stub (format strings: C06 territory)",
    "A->B->C == A->C is not checked here; it follows from C04's relation lemma in exact arithmetic",
    "the complex.h shim makes sizeof(double complex) == sizeof(double): a byte count computed with the wrong one of the two (seed C05-zin-memset-half) is invisible; compiling this unit without the shim trips a CBMC 6.11 internal invariant (complex member 'imag' in get_fz0_vector)",
    "bounded shapes (<= 3x3, <= 2 frequencies); see C15 for the shared assumptions (shim complex, union=struct, error stub)",
]
TRUSTED = ["CBMC 6.11", "gen/gen_conv_stubs.py (mechanical stub generator)", "harness/vnadata/wf_vnadata.h"]


def main(tier, only=None):
    J = jobs(tier)
    if only:
        J = [j for j in J if re.search(only, j.name)]
    rc = V.run_property("C05", J, tier, level="proof", assumptions=ASSUME, trusted_base=TRUSTED,
                        min_obligations=(100 if not only else 1),
                        technique="CBMC contract harness on the real vnadata_convert with recording contracts for the 90 vnaconv functions")
    if only and not re.search(only, "alias_zin"):
        return rc
    # The in-place clause has a second half the recording contracts cannot see: vnadata_convert(v, v, VPT_ZIN) hands
    # the Zin functions an output vector laid over the input matrix, so each of them must give the same result then
    # (obligation AL of the C04 generator, re-run here on the repository text of the 9 + 3 Zin functions).
    import json
    import subprocess
    p = subprocess.run(["python3-vt", os.path.join(V.VERIF, "slvc", "slvc.py"), "--tier", "quick",
                        "--only", "to(zi|zin)$", "--as-property", "C05"], stdout=subprocess.PIPE, stderr=subprocess.STDOUT, text=True)
    summ = None
    for ln in p.stdout.splitlines():
        if ln.startswith("SLVC-SUMMARY "):
            summ = json.loads(ln[len("SLVC-SUMMARY "):])
        elif ln.startswith(("VIOLATION", "INFRA", "  failed")):
            print(ln.replace("INFRA:", "INFRA: alias_zin:"))
    evp = os.path.join(V.VERIF, "evidence", "C05.json")
    if summ is None or p.returncode not in (0, 1):
        print("INFRA: alias_zin: the aliasing obligations of the Zin functions could not be generated (slvc exit %d)" % p.returncode)
        return rc if rc == 1 else 2
    try:
        ev = json.load(open(evp))
        ev["coverage"]["obligations"] += summ["obligations"]
        ev["coverage"]["discharged"] += summ["discharged"]
        ev["coverage"]["alias_zin"] = dict(note="in-place obligations (AL) of the Zin functions, generated from the repository text by slvc and discharged by sympy",
                                            **summ)
        if p.returncode == 1:
            ev["violations"] = ev.get("violations", 0) + (summ["obligations"] - summ["discharged"])
        json.dump(ev, open(evp, "w"), indent=1)
    except Exception as e:  # pragma: no cover
        print("INFRA: alias_zin: cannot update evidence (%r)" % e)
        return rc if rc == 1 else 2
    print("C05 alias_zin: obligations=%d discharged=%d" % (summ["obligations"], summ["discharged"]))
    return 1 if (rc == 1 or p.returncode == 1) else rc

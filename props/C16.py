"""C16 -- calibration and parameter handles stay valid, distinct and correctly indexed."""
import re
import vdriver as V

H = "vnacal/c16.c"
SRCS = ["vnacal_calibration.c", "vnacal_delete_calibration.c", "vnacal_find_calibration.c", "vnacal_get.c",
        "vnacal_parameter.c", "vnacal_delete_parameter.c", "vnacal_make_scalar_parameter.c",
        "vnacal_make_unknown_parameter.c", "vnacal_get_parameter_value.c", "vnacal_rfi.c", "vnacal_error.c"]


def jobs(tier, imports=True):
    J = []
    cal_allocs = (0, 1, 8) if tier == "quick" else (0, 1, 2, 8)
    for a in cal_allocs:
        d = ["-DVC_CAL_ALLOC=%d" % a, "-DVERIF_CUT_rfi_after_search=__CPROVER_assume(0)"]
        for e, fns in (("h_add_calibration", ["_vnacal_add_calibration_common", "vnacal_find_calibration",
                                              "vnacal_get_name", "vnacal_get_type", "vnacal_get_rows",
                                              "vnacal_get_columns", "_vnacal_calibration_free"]),
                       ("h_delete_calibration", ["vnacal_delete_calibration", "_vnacal_calibration_free"]),
                       ("h_query_calibration", ["vnacal_find_calibration", "vnacal_get_calibration_end",
                                                "_vnacal_get_calibration", "vnacal_get_name", "vnacal_get_type",
                                                "vnacal_get_rows", "vnacal_get_columns",
                                                "vnacal_get_frequencies", "vnacal_get_fmin", "vnacal_get_fmax",
                                                "vnacal_get_frequency_vector"])):
            J.append(V.Job("%s.alloc%d" % (e[2:], a), H, e, SRCS, defines=d, unwind=max(a, 2) + 2,
                           union_struct=True, kind="bounded", canary=(a == 8), functions=fns,
                           bound="calibration slots: allocation %d (concrete), occupancy and names symbolic" % a,
                           timeout=600))
    for a in (0, 1, 8):
        J.append(V.Job("free_vnacal.alloc%d" % a, H, "h_free_vnacal", SRCS + ["vnacal_free.c"],
                       defines=["-DVC_CAL_ALLOC=%d" % a, "-DH_FREE", "-DVERIF_CUT_rfi_after_search=__CPROVER_assume(0)"],
                       unwind=max(a, 2) + 2, union_struct=True, kind="bounded", canary=(a == 8),
                       functions=["vnacal_free", "_vnacal_calibration_free", "_vnacal_teardown_parameter_collection"],
                       bound="calibration slots: allocation %d, occupancy symbolic" % a, timeout=300))
    for a, live in ((3, 3), (8, 4)) if tier == "quick" else ((3, 3), (8, 4), (8, 5)):
        d = ["-DVERIF_BUILTIN_MEM", "-DVC_PRM_ALLOC=%d" % a, "-DVC_PRM_LIVE_MAX=%d" % live,
             "-DVERIF_CUT_rfi_after_search=__CPROVER_assume(0)"]
        for e, fns in (("h_alloc_parameter", ["_vnacal_alloc_parameter"]),
                       ("h_delete_parameter", ["vnacal_delete_parameter", "_vnacal_release_parameter",
                                               "_vnacal_free_parameter", "_vnacal_get_parameter"]),
                       ("h_teardown", ["_vnacal_teardown_parameter_collection", "_vnacal_release_parameter",
                                       "_vnacal_free_parameter"]),
                       ("h_make_parameter", ["vnacal_make_scalar_parameter", "vnacal_make_unknown_parameter",
                                             "vnacal_get_parameter_value", "_vnacal_hold_parameter"])):
            if tier == "quick" and a == 8 and e in ("h_alloc_parameter", "h_make_parameter"):
                continue        # 2-7 minutes each: thorough tier only
            J.append(V.Job("%s.alloc%d_live%d" % (e[2:], a, live), H, e, SRCS, defines=d,
                           unwind=(10 if a == 3 else (18 if live == a else 10)),
                           union_struct=True, kind="bounded", canary=(a == 8 and live == 4), functions=fns,
                           bound="parameter slots: allocation %d (concrete), slots >= %d empty; kinds, holders, deleted flags, external holds symbolic; unknown chains <= 2" % (a, live),
                           timeout=(600 if tier == "quick" else 1800)))
    import C01
    for j in C01.jobs(tier):
        if j.name == "param_hash.deleted_handle":       # deleted handles refused by vnacal_new_add_*, referrers keep working
            j.name = "vnacal_new." + j.name
            j.imported = True
            J.append(j)
        elif j.name.startswith("param_hash.grow"):      # "per-vnacal_new parameter hash": a handle resolves to ONE node, also after the table grew
            j.name = "vnacal_new." + j.name
            j.canary = False
            j.imported = True
            J.append(j)
    # "values returned for solved unknown parameters are those solved": the commit loop of the solve gives a handle
    # that was solved before (over more, or fewer, frequencies) exactly the grid and values of THIS solve
    import C11
    for j in (C11.jobs("quick") if imports else []):
        if j.name.startswith("solve_frame.") and "_unknown" in j.name and "merror" not in j.name:
            j.name = "solved_unknown." + j.name
            j.canary = False
            j.imported = True
            J.append(j)
    return J


ASSUME = [
    "shape-bounded: calibration allocation in {0,1,(2),8}, parameter allocation in {3,8}; induction over histories holds within that bound",
    "vnaproperty_delete (per-calibration property tree) replaced by a contract stub: frees the tree, clears the root (tree itself: C13)",
    "CORRELATED parameters are not constructed (their sigma vectors need spline state); SCALAR, one-point VECTOR and UNKNOWN chains of depth <= 2 are",
    "-Dunion=struct for vnacal_parameter_t; double complex compiled as double",
    "_vnaerr_verror by contract stub; strdup/strcmp: CBMC library models; malloc never fails here (C12)",
]
TRUSTED = ["CBMC 6.11", "stubs/verif_err.c", "stubs/verif_libc.c", "harness/vnacal/wf_vnacal.h (invariant + view)"]


def main(tier, only=None):
    J = jobs(tier)
    if only:
        J = [j for j in J if re.search(only, j.name)]
    return V.run_property("C16", J, tier, level="proof", assumptions=ASSUME, trusted_base=TRUSTED,
                          min_obligations=100,
                          technique="CBMC contract harnesses: wf_caltable / wf_params invariants + whole-table postconditions on the real functions")

"""C17 -- equivalent ways of describing the same calibration give the same result (entry-level clause)."""
import re
import vdriver as V

H = "vnacal/c17.c"


def connectivity_jobs(tier):
    J = []
    for n in ((3,) if tier == "quick" else (2, 3, 4)):
        J.append(V.Job("connectivity.n%d" % n, "vnacal/c17_conn.c", "h_connectivity",
                       ["vnacal_layout.c", "vnacal_error.c"], defines=["-DNPORTS=%d" % n], unwind=n * n + 2,
                       union_struct=True, kind="bounded", canary=(n == 3),
                       functions=["build_connectivity_matrix", "find"],
                       bound="%d ports, every zero / non-zero pattern of the S matrix (symbolic)" % n, timeout=600,
                       cbmc_flags=["--no-leak"]))
    return J


def jobs(tier):
    J = connectivity_jobs(tier)
    # port order of a multi-port standard: the cell map of the common funnel places M by SORTED port and S by the
    # standard's own order, for every order of the two ports (same jobs as C01 link 2, re-run under this id):
    # entering the same standard as (p1,p2) or (p2,p1) therefore describes the same equations
    import C01
    for j in C01.jobs(tier):
        if j.name.startswith("cell_map."):
            j.name = "port_order." + j.name
            j.canary = False
            j.imported = True
            J.append(j)
        elif j.name.startswith("param_hash.grow"):
            # "parameters created earlier in the same vnacal_t change nothing": a handle >= 8 (the table has grown)
            # still resolves to the ONE node created for it - an unknown is not silently split in two
            j.name = "unrelated_parameters." + j.name
            j.canary = False
            j.imported = True
            J.append(j)
    import C03
    for j in C03.jobs("quick"):
        if j.name in ("add_scenario.19", "add_scenario.20", "add_scenario.21"):   # double reflect on any port pair is accepted like the mapped matrix
            j.name = "double_reflect_ports." + j.name
            j.canary = False
            j.imported = True
            J.append(j)
    return J + wrapper_jobs(tier)


def wrapper_jobs(tier):
    return [V.Job("through_line_mapped", H, "h_through_line_mapped", ["vnacal_layout.c"],
                  strip={"vnacal_new_add_common.c": ["_vnacal_new_add_common"]},
                  unwind=6, union_struct=True, kind="proof", canary=True,
                  functions=["vnacal_new_add_through", "vnacal_new_add_through_m", "vnacal_new_add_line",
                             "vnacal_new_add_line_m", "vnacal_new_add_mapped_matrix",
                             "vnacal_new_add_mapped_matrix_m", "_vnacal_new_add_common (by recording contract)"],
                  bound="none: all dimensions, ports and matrix pointers symbolic; loop-free", timeout=300,
                  cbmc_flags=["--no-leak"])]


ASSUME = [
    "_vnacal_new_add_common's body is removed from the compiled unit and replaced by a recording contract: what the funnel DOES with equal descriptions is deterministic code, so equal descriptions give equal results",
    "port renumbering: only its combinatorial core is decided - the connectivity (block structure) of a standard does not depend on how its ports are numbered (build_connectivity_matrix against the closure specification)",
    "port order of a two-port standard with an abbreviated measurement matrix: cell placement of _vnacal_new_add_common against its specification for every order of the two ports (C01 cell_map jobs re-run here)",
    "NOT covered (numerical, outside the technique): order of standards, common a/b scaling, frequencies together vs apart, E12 vs UE14, full vs abbreviated measurement matrix",
]
TRUSTED = ["CBMC 6.11", "goto-instrument --remove-function-body"]


def main(tier, only=None):
    J = jobs(tier)
    if only:
        J = [j for j in J if re.search(only, j.name)]
    return V.run_property("C17", J, tier, level="proof", assumptions=ASSUME, trusted_base=TRUSTED,
                          min_obligations=10,
                          technique="CBMC: entry points compared through a recording contract on the common funnel")

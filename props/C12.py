"""C12 -- any single allocation failure yields a clean ENOMEM failure, nothing worse."""
import re
import vdriver as V
import C15

H = "c12.c"
ALLOC = ["-DVERIF_BUILTIN_MEM", "-Dmalloc=verif_malloc", "-Dcalloc=verif_calloc", "-Drealloc=verif_realloc", "-Dstrdup=verif_strdup"]
STUBS = ["verif_err.c", "verif_libc.c", "verif_alloc.c"]

# script name -> (entry, defines, sources, K = number of allocations in the fault-free run, unwind)
SCRIPTS = {
    "vnadata": ("h_script_vnadata", ["-DS_VNADATA", "-DWF_AFTER_FAULT", "-DVD_R_MAX=3", "-DVD_F_MAX=3", "-DVD_FA_MAX=3", "-DVD_MA_MAX=9", "-DVD_PA_MAX=3"],
                C15.SRCS, 0, 8),
    "vnadata_addf": ("h_script_vnadata", ["-DS_VNADATA", "-DWF_AFTER_FAULT", "-DS_ADD_FREQUENCY", "-DVD_R_MAX=3", "-DVD_F_MAX=4", "-DVD_FA_MAX=51", "-DVD_MA_MAX=9", "-DVD_PA_MAX=3"],
                C15.SRCS, 0, 52),
    "vnadata_format": ("h_script_vnadata", ["-DS_VNADATA", "-DWF_AFTER_FAULT", "-DS_FORMAT", "-DVD_R_MAX=3", "-DVD_F_MAX=3", "-DVD_FA_MAX=3", "-DVD_MA_MAX=9", "-DVD_PA_MAX=3"],
                C15.SRCS + ["vnadata_set_simple_format.c", "vnadata_update_format_string.c", "vnadata_format_to_name.c", "vnadata_get_type_name.c"], 0, 8),
    "vnacal": ("h_script_vnacal", ["-DS_VNACAL", "-DVERIF_CUT_rfi_after_search=__CPROVER_assume(0)"],
               ["vnacal_create.c", "vnacal_free.c", "vnacal_parameter.c", "vnacal_make_scalar_parameter.c",
                "vnacal_make_vector_parameter.c", "vnacal_make_unknown_parameter.c", "vnacal_delete_parameter.c",
                "vnacal_error.c", "vnacal_layout.c", "vnacal_rfi.c", "vnacal_calibration.c"], 0, 10),
    "vnacal_corr": ("h_script_vnacal", ["-DS_VNACAL", "-DS_CORRELATED", "-DVERIF_CUT_rfi_after_search=__CPROVER_assume(0)"],
               ["vnacal_create.c", "vnacal_free.c", "vnacal_parameter.c", "vnacal_make_scalar_parameter.c",
                "vnacal_make_vector_parameter.c", "vnacal_make_unknown_parameter.c", "vnacal_make_correlated_parameter.c",
                "vnacal_delete_parameter.c", "vnacommon_spline.c",
                "vnacal_error.c", "vnacal_layout.c", "vnacal_rfi.c", "vnacal_calibration.c"], 0, 10),
    "vnacal_new": ("h_script_vnacal_new", ["-DS_VNACAL_NEW", "-DVERIF_CUT_rfi_after_search=__CPROVER_assume(0)"],
                   ["vnacal_create.c", "vnacal_free.c", "vnacal_new.c", "vnacal_new_add_common.c",
                    "vnacal_new_build_equation_terms.c", "vnacal_new_parameter.c", "vnacal_parameter.c",
                    "vnacal_layout.c", "vnacal_error.c", "vnacal_calibration.c", "vnacal_rfi.c", "vnacal_type_to_name.c",
                    "vnacommon_mrdivide.c", "vnacommon_lu.c"], 0, 18),
    "vnacal_new_through": ("h_script_vnacal_new", ["-DS_VNACAL_NEW", "-DS_THROUGH", "-DVERIF_CUT_rfi_after_search=__CPROVER_assume(0)"],
                   ["vnacal_create.c", "vnacal_free.c", "vnacal_new.c", "vnacal_new_add_common.c",
                    "vnacal_new_build_equation_terms.c", "vnacal_new_parameter.c", "vnacal_parameter.c",
                    "vnacal_layout.c", "vnacal_error.c", "vnacal_calibration.c", "vnacal_rfi.c", "vnacal_type_to_name.c",
                    "vnacommon_mrdivide.c", "vnacommon_lu.c"], 0, 18),
    "vnacal_new_unknown": ("h_script_vnacal_new", ["-DS_VNACAL_NEW", "-DS_UNKNOWN", "-DVERIF_CUT_rfi_after_search=__CPROVER_assume(0)"],
                   ["vnacal_create.c", "vnacal_free.c", "vnacal_new.c", "vnacal_new_add_common.c",
                    "vnacal_new_build_equation_terms.c", "vnacal_new_parameter.c", "vnacal_parameter.c",
                    "vnacal_layout.c", "vnacal_error.c", "vnacal_calibration.c", "vnacal_rfi.c", "vnacal_type_to_name.c",
                    "vnacommon_mrdivide.c", "vnacommon_lu.c", "vnacal_make_unknown_parameter.c", "vnacal_delete_parameter.c"], 0, 18),
    "vnacal_new_m_error": ("h_script_vnacal_new", ["-DS_VNACAL_NEW", "-DS_M_ERROR", "-DVERIF_CUT_rfi_after_search=__CPROVER_assume(0)"],
                   ["vnacal_create.c", "vnacal_free.c", "vnacal_new.c", "vnacal_new_add_common.c",
                    "vnacal_new_build_equation_terms.c", "vnacal_new_parameter.c", "vnacal_parameter.c",
                    "vnacal_layout.c", "vnacal_error.c", "vnacal_calibration.c", "vnacal_rfi.c", "vnacal_type_to_name.c",
                    "vnacommon_mrdivide.c", "vnacommon_lu.c", "vnacal_new_set_m_error.c", "vnacommon_spline.c"], 0, 18),
    "property": ("h_script_property", ["-DS_PROPERTY"], ["vnaproperty.c", "vnacal_layout.c"], 0, 14),
    "property_list": ("h_script_property", ["-DS_PROPERTY", "-DS_PLIST"], ["vnaproperty.c", "vnacal_layout.c"], 0, 14),
    "addcal": ("h_script_addcal", ["-DS_ADDCAL", "-DVC_CAL_ALLOC=1", "-DVERIF_CUT_rfi_after_search=__CPROVER_assume(0)"],
               ["vnacal_calibration.c", "vnacal_free.c", "vnacal_find_calibration.c", "vnacal_parameter.c",
                "vnacal_error.c", "vnacal_layout.c", "vnacal_rfi.c"], 0, 12),
}
_K = {}


def measure_k(name):
    """fault-free allocation count of a script, measured by running the same harness natively
    against the real sources compiled with the counting allocator (no constant is hard-coded)"""
    import os, subprocess, shutil
    if name in _K:
        return _K[name]
    entry, defs, srcs, _k, unw = SCRIPTS[name]
    wd = os.path.join(V.BUILD, "C12", "_measure_" + name)
    shutil.rmtree(wd, ignore_errors=True)
    os.makedirs(wd)
    exe = os.path.join(wd, "m")
    cc = ["cc", "-O0", "-w", "-DVERIF_NATIVE", "-DHARNESS=" + entry, "-DVERIF_FAIL_AT=0", "-DEXPECT_K=0"] + \
        ["-DHAVE_CONFIG_H"] + defs + ALLOC + V.BASE_INC + ["-I" + os.path.join(V.VERIF, "harness"),
        os.path.join(V.VERIF, "harness", H), os.path.join(V.VERIF, "include", "verif_native.c"),
        os.path.join(V.VERIF, "stubs", "verif_err.c"), os.path.join(V.VERIF, "stubs", "verif_alloc.c")] + \
        [s if os.path.isabs(s) else os.path.join(V.SRC, s) for s in srcs] + \
        [os.path.join(V.SRC, x) for x in ("vnaerr_verror.c",)] + ["-lm", "-lyaml", "-o", exe]
    p = subprocess.run(cc, stdout=subprocess.PIPE, stderr=subprocess.PIPE, text=True)
    if p.returncode != 0:
        print("INFRA: cannot build native K measurement for %s: %s" % (name, p.stderr[-600:]))
        raise SystemExit(2)
    vf = os.path.join(wd, "values.txt")
    with open(vf, "w") as f:
        f.write("g -1 0x3fe0000000000000\nz -1 0x4052c00000000000\nv -1 0x3ff8000000000000\n")
    p = subprocess.run([exe], stdout=subprocess.PIPE, stderr=subprocess.PIPE, text=True,
                       env=dict(os.environ, VERIF_REPLAY_VALUES=vf))
    m = re.search(r"VERIF_ALLOC_COUNT=(\d+)", p.stdout)
    if not m:
        print("INFRA: native K measurement for %s gave no count: %s %s" % (name, p.stdout[-300:], p.stderr[-300:]))
        raise SystemExit(2)
    _K[name] = int(m.group(1))
    return _K[name]


def jobs(tier):
    J = []
    for name, (entry, defs, srcs, _k, unw) in SCRIPTS.items():
        if name == "vnadata_addf" and tier == "quick":
            continue
        K = measure_k(name)
        for k in range(0, K + 1):
            d = defs + ALLOC + ["-DVERIF_FAIL_AT=%d" % k, "-DEXPECT_K=%d" % K]
            J.append(V.Job("%s.k%02d" % (name, k), H, entry, srcs, stubs=STUBS, defines=d, unwind=unw,
                           union_struct=True, kind="proof", canary=(k == 0),
                           functions=["allocation sites reached by script '%s'" % name],
                           bound="scripted history '%s', allocation index k=%d of %d failed once; values symbolic" % (name, k, K),
                           cbmc_flags=(["--object-bits", "14"] if name == "vnadata_addf" else []),
                           # the qsort model's nested loops at the harness default of 160 exhaust memory; the table walk needs 9
                           unwindset=({"qsort.0": 6, "qsort.1": 6, "qsort.2": 6, "prm_ok.0": 10} if name in ("vnacal", "vnacal_corr") else None),
                           timeout=(300 if tier == 'quick' else 1500)))
    return J


ASSUME = [
    "fault model: the k-th call of malloc/calloc/realloc/strdup made from libvna translation units returns NULL with errno ENOMEM, once (counted wrapper stubs/verif_alloc.c via -D on the compiler command line)",
    "scripted histories only (vnadata; vnacal create + parameters); solver, add_*, save/load and YAML paths are outside",
    "vnaproperty_delete by contract stub in the vnacal script; double complex compiled as double; -Dunion=struct",
]
TRUSTED = ["CBMC 6.11", "stubs/verif_alloc.c", "stubs/verif_err.c", "stubs/verif_libc.c"]


def main(tier, only=None):
    J = jobs(tier)
    if only:
        J = [j for j in J if re.search(only, j.name)]
    n = len(J)
    return V.run_property("C12", J, tier, level="fault_enumeration", assumptions=ASSUME, trusted_base=TRUSTED,
                          min_obligations=100,
                          extra_coverage=dict(exhaustive=True),
                          technique="exhaustive single-allocation-fault enumeration; each fault index is one CBMC proof run over the scripted history with symbolic values")

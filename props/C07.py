"""C07 -- calibration files round-trip: the precision/buffer clause (the only one contracts can reach)."""
import re
import vdriver as V

H = "vnacal/c07.c"


def jobs(tier):
    J = []
    for e in ("h_add_double", "h_add_complex", "h_add_integer"):
        J.append(V.Job(e[2:], H, e, [], stubs=["verif_err.c"], unwind=20, shim=False, kind="proof", canary=True,
                       functions=[e[2:] + " (static, vnacal_save.c)"],
                       bound="none: every precision the setters accept (>= 1, incl. VNACAL_MAX_PRECISION), every double",
                       timeout=300, cbmc_flags=["--no-leak"]))
    # control: within the default/ordinary precisions the buffers are large enough
    for e, pmax in (("h_add_double", 26), ("h_add_complex", 25)):
        J.append(V.Job(e[2:] + ".upto%d" % pmax, H, e, [], stubs=["verif_err.c"], defines=["-DPRECISION_MAX=%d" % pmax],
                       unwind=20, shim=False, kind="proof", functions=[e[2:]],
                       bound="precision 1..%d" % pmax, timeout=300, cbmc_flags=["--no-leak"]))
    return J


ASSUME = [
    "sprintf by assumed contract: exact worst-case output length of the formats %d, %.*e, %+a %+aj, %+.*e %+.*ej (3-digit exponent, sign) and the destination must hold it",
    "libyaml (yaml_document_add_scalar) by recording stub; everything else about the round trip (libyaml, property trees, legacy versions, bit-exactness) is OUTSIDE contract verification and not decided: a defect there is not detected",
    "the precisions accepted are those of the DFCC contracts on vnacal_set_fprecision/dprecision (C11): every int >= 1",
]
TRUSTED = ["CBMC 6.11", "sprintf length model in harness/vnacal/c07.c"]


def main(tier, only=None):
    J = jobs(tier)
    if only:
        J = [j for j in J if re.search(only, j.name)]
    return V.run_property("C07", J, tier, level="proof", assumptions=ASSUME, trusted_base=TRUSTED,
                          min_obligations=20,
                          technique="CBMC contract harness on the static number formatters of vnacal_save.c with a length-exact sprintf contract")

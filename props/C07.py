"""C07 -- calibration files round-trip: the writing side (frame of vnacal_save, formatter buffers)."""
import re
import vdriver as V

H = "vnacal/c07.c"


def jobs(tier):
    J = []
    for e in ("h_add_double", "h_add_complex", "h_add_integer"):
        J.append(V.Job(e[2:], H, e, [], stubs=["verif_err.c"], unwind=20, shim=False, kind="proof", canary=True,
                       functions=[e[2:] + " (static, vnacal_save.c)"],
                       bound="none: every precision the setters accept (>= 1, incl. VNACAL_MAX_PRECISION), every double",
                       timeout=300, cbmc_flags=["--no-leak"]))
    # control: within the default/ordinary precisions the buffers are large enough
    for e, pmax in (("h_add_double", 26), ("h_add_complex", 25)):
        J.append(V.Job(e[2:] + ".upto%d" % pmax, H, e, [], stubs=["verif_err.c"], defines=["-DPRECISION_MAX=%d" % pmax],
                       unwind=20, shim=False, kind="proof", functions=[e[2:]],
                       bound="precision 1..%d" % pmax, timeout=300, cbmc_flags=["--no-leak"]))
    for fp_, dp_ in ((3, 5),) if tier == "quick" else ((3, 5), (7, 4), (6, 6), (1, 17)):
        J.append(V.Job("save_frame.f%d_d%d" % (fp_, dp_), "vnacal/c07_save.c", "h_save_frame", ["vnacal_layout.c"], stubs=["verif_err.c"],
                       defines=["-DFPREC=%d" % fp_, "-DDPREC=%d" % dp_, "-DVERIF_BUILTIN_MEM"], unwind=26, shim=False, kind="bounded",
                       canary=False,
                       functions=["vnacal_save", "add_error_parameters", "add_vector", "add_mapping_entry", "add_integer", "add_double",
                                  "add_complex"],
                       bound="table [a, empty, b] of 1x1 T8 calibrations with 2 frequencies; fprecision %d, dprecision %d; libyaml by a "
                             "recording document model, sprintf by a marker contract" % (fp_, dp_),
                       timeout=600, cbmc_flags=["--no-leak"]))
    J.append(V.Job("save_frame.own_name", "vnacal/c07_save.c", "h_save_frame", ["vnacal_layout.c"], stubs=["verif_err.c"],
                   defines=["-DFPREC=3", "-DDPREC=5", "-DVERIF_BUILTIN_MEM", "-DSAVE_OWN_NAME"], unwind=26, shim=False, kind="bounded",
                   canary=False, functions=["vnacal_save (file name handling)"],
                   bound="the same table, saved under vnacal_get_filename(vcp)", timeout=900, cbmc_flags=["--no-leak"]))
    # property trees in the file: the exporter writes every map key in the quoted form the importer's descriptor
    # parser needs (job of C13, re-run under this id)
    import C13
    for j in C13.jobs("quick"):
        if j.name == "export_keys":
            j.name = "properties." + j.name
            j.canary = False
            j.imported = True
            J.append(j)
    return J


ASSUME = [
    "sprintf by assumed contract: exact worst-case output length of the formats %d, %.*e, %+a %+aj, %+.*e %+.*ej (3-digit exponent, sign) and the destination must hold it",
    "libyaml (yaml_document_add_scalar) by recording stub; of the property trees only the key-quoting contract between exporter and importer is decided (properties.export_keys); everything else about the round trip (libyaml itself, the loader, legacy versions, bit-exactness) is OUTSIDE contract verification and not decided: a defect there is not detected",
    "the precisions accepted are those of the DFCC contracts on vnacal_set_fprecision/dprecision (C11): every int >= 1",
]
ASSUME.append("save_frame: libyaml's document and emitter functions are a recording model (the document is the tree of the add/append calls and is written as such), "
              "stdio succeeds, property trees are empty; sprintf writes a marker naming the precision used: WHAT is written WHERE with WHICH precision is decided, not the digits")
TRUSTED = ["CBMC 6.11", "sprintf length model in harness/vnacal/c07.c", "document model in harness/vnacal/c07_save.c"]


def main(tier, only=None):
    J = jobs(tier)
    if only:
        J = [j for j in J if re.search(only, j.name)]
    return V.run_property("C07", J, tier, level="proof", assumptions=ASSUME, trusted_base=TRUSTED,
                          min_obligations=20,
                          technique="CBMC contract harnesses: real vnacal_save over a recording libyaml document model; static number formatters with a length-exact sprintf contract")

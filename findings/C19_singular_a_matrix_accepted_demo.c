#include <stdio.h>
#include <complex.h>
#include <errno.h>
#include <vnacal.h>
static int reports;
static void errfn(const char *msg, void *arg, vnaerr_category_t c) { ++reports; fprintf(stderr, "libvna: %s\n", msg); }
int main(void)
{
    double f[1] = { 1e9 };
    vnacal_t *vcp = vnacal_create(errfn, NULL);
    vnacal_new_t *vnp = vnacal_new_alloc(vcp, VNACAL_T8, 2, 2, 1);
    /* singular 'a' matrix: first column zero */
    double complex a11[1] = { 0 }, a12[1] = { 1 }, a21[1] = { 0 }, a22[1] = { 1 };
    double complex b11[1] = { 0.1 }, b12[1] = { 0.9 }, b21[1] = { 0.9 }, b22[1] = { 0.1 };
    double complex *a[4] = { a11, a12, a21, a22 }, *b[4] = { b11, b12, b21, b22 };
    int rc;
    vnacal_new_set_frequency_vector(vnp, f);
    rc = vnacal_new_add_through(vnp, a, 2, 2, b, 2, 2, 1, 2);
    printf("add_through with singular a: rc=%d reports=%d errno=%d\n", rc, reports, errno);
    vnacal_new_free(vnp); vnacal_free(vcp);
    return rc == -1 ? 0 : 1;
}

/*
 * repro_rfi_linear_pole.c: pre-existing bug (unmodified library).
 *
 * A vector parameter that is exactly linear in frequency and changes sign
 * between knots (no knot value is 0) is not reproduced at some round
 * in-range frequencies.  In _vnacal_rfi (src/vnacal_rfi.c) an intermediate
 * entry of the Bulirsch-Stoer tableau has a pole exactly at the query
 * (den == 0, or round-off noise instead of 0); the code then either does
 * "goto done" and returns the partial sum (y of the nearest knot) or
 * divides by the noise.  No error is reported.
 *
 * Knots 1.0, 1.2 .. 2.0 GHz, gamma = 0.5 - (f - 1 GHz)/1 GHz
 * (0.5, 0.3, 0.1, -0.1, -0.3, -0.5).
 *   f = 1.1 GHz: want  0.4, got  0.525
 *   f = 1.5 GHz: want  0.0, got  0.1
 *   f = 1.9 GHz: want -0.4, got -0.375
 * All other multiples of 1 MHz are reproduced to 1e-15.
 *
 * cc -g -fsanitize=address -I src -I . repro_rfi_linear_pole.c \
 *     src/.libs/libvna.a -lyaml -lm -o repro_rfi_linear_pole
 * exit 1: bug present; exit 0: not present.
 */
#include <complex.h>
#include <math.h>
#include <stdio.h>
#include <vnacal.h>

int main(void)
{
    vnacal_t *vcp = vnacal_create(NULL, NULL);
    double fv[6];
    double complex gv[6];
    int p, bad = 0;

    for (int i = 0; i < 6; ++i) {
	fv[i] = 1.0e9 + 0.2e9 * i;
	gv[i] = 0.5 - (fv[i] - 1.0e9) / 1.0e9;
    }
    p = vnacal_make_vector_parameter(vcp, fv, 6, gv);
    for (double f = 1.0e9; f <= 2.0e9; f += 1.0e6) {
	double complex v = vnacal_get_parameter_value(vcp, p, f);
	double want = 0.5 - (f - 1.0e9) / 1.0e9;

	if (cabs(v - want) > 1.0e-6) {
	    printf("f=%.4e: got %g%+gi want %g\n", f, creal(v), cimag(v), want);
	    ++bad;
	}
    }
    vnacal_free(vcp);
    printf("%d of 1001 in-range frequencies wrong\n", bad);
    return bad != 0;
}

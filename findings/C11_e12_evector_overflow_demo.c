/* E12 2x2 SOLT calibration with ideal VNA (M == S): vnacal_new_solve overflows e_vector */
#include <stdio.h>
#include <complex.h>
#include <vnacal.h>
static void errfn(const char *msg, void *arg, vnaerr_category_t c) { fprintf(stderr, "libvna: %s\n", msg); }
int main(void)
{
    double f[1] = { 1e9 };
    vnacal_t *vcp = vnacal_create(errfn, NULL);
    vnacal_new_t *vnp = vnacal_new_alloc(vcp, VNACAL_E12, 2, 2, 1);
    double complex m11[1], m12[1], m21[1], m22[1];
    double complex *m[4] = { m11, m12, m21, m22 };
    vnacal_new_set_frequency_vector(vnp, f);
    /* short-short, open-open, match-match, through (ideal VNA) */
    m12[0] = m21[0] = 0;
    m11[0] = m22[0] = -1; if (vnacal_new_add_double_reflect_m(vnp, m, 2, 2, VNACAL_SHORT, VNACAL_SHORT, 1, 2)) return 2;
    m11[0] = m22[0] = 1;  if (vnacal_new_add_double_reflect_m(vnp, m, 2, 2, VNACAL_OPEN, VNACAL_OPEN, 1, 2)) return 2;
    m11[0] = m22[0] = 0;  if (vnacal_new_add_double_reflect_m(vnp, m, 2, 2, VNACAL_MATCH, VNACAL_MATCH, 1, 2)) return 2;
    m11[0] = m22[0] = 0; m12[0] = m21[0] = 1; if (vnacal_new_add_through_m(vnp, m, 2, 2, 1, 2)) return 2;
    int rc = vnacal_new_solve(vnp);
    printf("solve rc=%d\n", rc);
    vnacal_new_free(vnp);
    vnacal_free(vcp);
    return rc == 0 ? 0 : 1;
}

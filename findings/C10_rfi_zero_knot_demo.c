/*
 * repro_rfi_zero_knot.c: pre-existing bug (unmodified library).
 *
 * A vector parameter whose gamma is exactly 0 at one knot (e.g. a load
 * that is perfectly matched at one frequency) interpolates to ~0 over
 * whole segments instead of following the data.  The Bulirsch-Stoer
 * tableau in _vnacal_rfi (src/vnacal_rfi.c) degenerates when an ordinate
 * in the window is 0: the "+ EPS" on d[] does not rescue it.
 *
 * Data: gamma(t) = (0.5 - t)/(1 + 0.3 t), t = (f - 1 GHz)/1 GHz, sampled
 * at 5 (and 11) equally spaced knots; gamma is exactly 0 at 1.5 GHz.
 * The same data shifted by +0.001 (no exact zero) interpolates to 1e-13.
 *
 * cc -g -fsanitize=address -I src -I . repro_rfi_zero_knot.c \
 *     src/.libs/libvna.a -lyaml -lm -o repro_rfi_zero_knot
 * exit 1: bug present; exit 0: not present.
 */
#include <complex.h>
#include <math.h>
#include <stdio.h>
#include <vnacal.h>

static double complex model(double f, double shift)
{
    double t = (f - 1.0e9) / 1.0e9;

    return (0.5 - t) / (1.0 + 0.3 * t) + shift;
}

static double worst_error(vnacal_t *vcp, int n, double shift)
{
    double fv[16];
    double complex gv[16];
    double worst = 0.0;
    int p;

    for (int i = 0; i < n; ++i) {
	fv[i] = 1.0e9 + i * 1.0e9 / (n - 1);
	gv[i] = model(fv[i], shift);
    }
    if (shift == 0.0) {
	gv[(n - 1) / 2] = 0.0;		/* exactly zero at 1.5 GHz */
    }
    p = vnacal_make_vector_parameter(vcp, fv, n, gv);
    for (double f = 1.0e9; f <= 2.0e9; f += 12.5e6) {
	double complex v = vnacal_get_parameter_value(vcp, p, f);
	double e = cabs(v - model(f, shift));

	if (e > worst) {
	    worst = e;
	    printf("  n=%2d shift=%g f=%.4e: got %g%+gi want %g\n", n, shift, f,
		    creal(v), cimag(v), creal(model(f, shift)));
	}
    }
    return worst;
}

int main(void)
{
    vnacal_t *vcp = vnacal_create(NULL, NULL);
    int bad = 0;

    for (int n = 5; n <= 11; n += 6) {
	double e_zero  = worst_error(vcp, n, 0.0);
	double e_shift = worst_error(vcp, n, 0.001);

	printf("n=%2d: worst error with exact-zero knot %g, "
		"without %g\n", n, e_zero, e_shift);
	if (e_zero > 1.0e-2) {
	    bad = 1;
	}
    }
    vnacal_free(vcp);
    printf(bad ? "BUG: zero-valued knot wrecks the interpolation\n" : "ok\n");
    return bad;
}

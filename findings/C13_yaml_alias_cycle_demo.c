/*
 * repro_yaml_alias_cycle.c: a YAML anchor that refers to its own collection
 * makes _vnaproperty_yaml_import recurse without bound (stack overflow).
 * Unmodified library.
 */
#include <stdio.h>
#include <vnaproperty.h>

int main(void)
{
    vnaproperty_t *root = NULL;
    int rv;

    rv = vnaproperty_import_yaml_from_string(&root, "&a [ *a ]\n", NULL, NULL);
    printf("rv=%d\n", rv);
    vnaproperty_delete(&root, ".");
    return 0;
}

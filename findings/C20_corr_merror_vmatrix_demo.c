/*
 * repro_corr_merror.c: pre-existing bug (unmodified code).
 *
 * 1x1 T8 calibration: short, open and a load that is declared "correlated"
 * with VNACAL_MATCH (sigma 0.05), with a measurement error model given by
 * vnacal_new_set_m_error.  The linear system is exactly determined
 * (3 equations, 3 error terms) and the one correlation equation determines
 * the one unknown, so vnacal_new_solve accepts it.  But because no system is
 * over-determined, _vnacal_new_solve_init allocates no V matrices
 * (vnsm_v_matrices == NULL for every standard), while _vnacal_new_solve_auto
 * allocates prev_v_matrices whenever an error model is present and then
 * save_v_matrices() dereferences vnmmp->vnsm_v_matrices[sindex] -> NULL
 * pointer read, SIGSEGV.
 *
 * cc -g -fsanitize=address -I src -I . repro_corr_merror.c \
 *     src/.libs/libvna.a -lyaml -lm -o repro_corr_merror
 */
#include <complex.h>
#include <stdio.h>
#include <stdlib.h>
#include <vnacal.h>

#define F 2

static void error_fn(const char *message, void *arg, vnaerr_category_t category)
{
    (void)arg; (void)category;
    (void)fprintf(stderr, "[libvna] %s\n", message);
}

int main(void)
{
    static const double fv[F] = { 1.0e+9, 2.0e+9 };
    double complex m_short[F], m_open[F], m_load[F];
    double complex *mp[1];
    double sigma_nf = 1.0e-4, sigma_tr = 1.0e-3, sigma_p = 0.05;
    vnacal_t *vcp;
    vnacal_new_t *vnp;
    int p_load, rc;

    vcp = vnacal_create(error_fn, NULL);
    vnp = vnacal_new_alloc(vcp, VNACAL_T8, 1, 1, F);
    vnacal_new_set_frequency_vector(vnp, fv);
    for (int i = 0; i < F; ++i) {
	m_short[i] = -1.0;
	m_open[i]  =  1.0;
	m_load[i]  =  0.02;
    }
    p_load = vnacal_make_correlated_parameter(vcp, VNACAL_MATCH,
	    NULL, 1, &sigma_p);
    if (p_load == -1) {
	return 3;
    }
    mp[0] = m_short;
    rc  = vnacal_new_add_single_reflect_m(vnp, mp, 1, 1, VNACAL_SHORT, 1);
    mp[0] = m_open;
    rc |= vnacal_new_add_single_reflect_m(vnp, mp, 1, 1, VNACAL_OPEN, 1);
    mp[0] = m_load;
    rc |= vnacal_new_add_single_reflect_m(vnp, mp, 1, 1, p_load, 1);
    rc |= vnacal_new_set_m_error(vnp, NULL, 1, &sigma_nf, &sigma_tr);
    if (rc != 0) {
	return 3;
    }
    rc = vnacal_new_solve(vnp);		/* crashes here */
    (void)printf("vnacal_new_solve returned %d\n", rc);
    vnacal_new_free(vnp);
    vnacal_free(vcp);
    return 0;
}

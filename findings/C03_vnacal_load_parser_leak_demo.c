#include <stdio.h>
#include <complex.h>
#include <vnacal.h>
static void errfn(const char *msg, void *arg, vnaerr_category_t c) { fprintf(stderr, "libvna: %s\n", msg); }
int main(void)
{
    double f[2] = { 1e9, 2e9 };
    vnacal_t *vcp = vnacal_create(errfn, NULL), *vcp2;
    vnacal_new_t *vnp = vnacal_new_alloc(vcp, VNACAL_T8, 1, 1, 2);
    double complex m11[2];
    double complex *m[1] = { m11 };
    vnacal_new_set_frequency_vector(vnp, f);
    m11[0] = m11[1] = -1; vnacal_new_add_single_reflect_m(vnp, m, 1, 1, VNACAL_SHORT, 1);
    m11[0] = m11[1] = 1;  vnacal_new_add_single_reflect_m(vnp, m, 1, 1, VNACAL_OPEN, 1);
    m11[0] = m11[1] = 0;  vnacal_new_add_single_reflect_m(vnp, m, 1, 1, VNACAL_MATCH, 1);
    if (vnacal_new_solve(vnp) == -1) return 2;
    if (vnacal_add_calibration(vcp, "c", vnp) == -1) return 2;
    vnacal_new_free(vnp);
    if (vnacal_save(vcp, "/tmp/yl/t.vnacal") == -1) return 2;
    vnacal_free(vcp);
    vcp2 = vnacal_load("/tmp/yl/t.vnacal", errfn, NULL);
    if (vcp2 == NULL) return 2;
    vnacal_free(vcp2);
    printf("ok\n");
    return 0;
}

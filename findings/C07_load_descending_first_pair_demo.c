/*
 * vnacal_load compared each frequency with its predecessor only from the
 * THIRD entry on (findex > 1): a file whose first two frequencies descend
 * was accepted, although every user of a calibration (interpolation, range
 * checks) relies on strictly ascending frequencies.
 *
 * cc -g -I src -I . findings/C07_load_descending_first_pair_demo.c src/.libs/libvna.a -lyaml -lm -o demo && ./demo
 * exit 1: defect present (file accepted); exit 0: refused.
 */
#include <complex.h>
#include <stdio.h>
#include <stdlib.h>
#include <string.h>
#include <vnacal.h>

static void ef(const char *m, void *a, vnaerr_category_t c) { (void)a; (void)c; fprintf(stderr, "libvna: %s\n", m); }

int main(void)
{
    double f[3] = { 1.0e6, 2.0e6, 3.0e6 };
    double complex ms[3], mo[3], mm[3];
    double complex *p[1];
    vnacal_t *vcp = vnacal_create(ef, NULL), *v2;
    vnacal_new_t *vnp = vnacal_new_alloc(vcp, VNACAL_T8, 1, 1, 3);
    char line[512];
    FILE *in, *out;
    int nf = 0, rc;

    for (int i = 0; i < 3; ++i) { ms[i] = -0.9; mo[i] = 0.9; mm[i] = 0.05; }
    vnacal_new_set_frequency_vector(vnp, f);
    p[0] = ms; vnacal_new_add_single_reflect_m(vnp, p, 1, 1, VNACAL_SHORT, 1);
    p[0] = mo; vnacal_new_add_single_reflect_m(vnp, p, 1, 1, VNACAL_OPEN, 1);
    p[0] = mm; vnacal_new_add_single_reflect_m(vnp, p, 1, 1, VNACAL_MATCH, 1);
    if (vnacal_new_solve(vnp) != 0 || vnacal_add_calibration(vcp, "c", vnp) < 0 || vnacal_save(vcp, "ok.vnacal") != 0)
	return 3;
    /* swap the first two frequency values */
    in = fopen("ok.vnacal", "r"); out = fopen("bad.vnacal", "w");
    while (fgets(line, sizeof(line), in) != NULL) {
	char *q = strstr(line, "f: ");
	if (q != NULL && nf < 2) {
	    *q = 0;
	    fprintf(out, "%sf: %s\n", line, nf == 0 ? "2.000000e+06" : "1.000000e+06");
	    ++nf;
	} else {
	    fputs(line, out);
	}
    }
    fclose(in); fclose(out);
    if (nf != 2)
	return 3;
    v2 = vnacal_load("bad.vnacal", ef, NULL);
    rc = (v2 != NULL);
    printf("file with frequencies 2 MHz, 1 MHz, 3 MHz: %s\n", rc ? "ACCEPTED" : "refused");
    if (v2 != NULL) vnacal_free(v2);
    vnacal_new_free(vnp); vnacal_free(vcp);
    remove("ok.vnacal"); remove("bad.vnacal");
    return rc;
}

#include "/repo/src/vnacal_save.c"
int main(void)
{
    yaml_document_t doc;
    yaml_document_initialize(&doc, NULL, NULL, NULL, 0, 0);
    /* precision 40 is accepted by vnacal_set_fprecision (any value >= 1) */
    add_double(&doc, -1.2345678901234567e-300, 40);
    add_complex(&doc, -1.2345678901234567e-300 - 2.5e-301 * I, 30);
    yaml_document_delete(&doc);
    return 0;
}

#include <stdio.h>
#include <errno.h>
#include <string.h>
#include <vnadata.h>
static int nerr; static char last[256];
static void ef(const char *m, void *a, vnaerr_category_t c){ (void)a;(void)c; ++nerr; snprintf(last,sizeof last,"%s",m); }
int main(void){
    /* Touchstone 1 file whose LAST data line has a frequency that is not increasing */
    FILE *fp=fopen("bad.s1p","w"); fprintf(fp,"# Hz S RI R 50\n1e9 0.1 0.2\n2e9 0.3 0.4\n2e9 0.5 0.6\n"); fclose(fp);
    vnadata_t *v=vnadata_alloc(ef,NULL);
    int rc=vnadata_load(v,"bad.s1p");
    printf("rc=%d errors=%d frequencies=%d last=\"%s\"\n",rc,nerr,vnadata_get_frequencies(v),last);
    int bad = (nerr>0 && rc==0);
    vnadata_free(v); remove("bad.s1p");
    return bad;
}

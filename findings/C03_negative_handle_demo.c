#include <stdio.h>
#include <complex.h>
#include <vnacal.h>
int main(void)
{
    vnacal_t *vcp = vnacal_create(NULL, NULL);
    vnacal_new_t *vnp = vnacal_new_alloc(vcp, VNACAL_T8, 2, 2, 1);
    double complex m11[1] = { 0.1 };
    double complex *m[1] = { m11 };
    double f[1] = { 1e9 };
    vnacal_new_set_frequency_vector(vnp, f);
    /* a negative parameter handle must be refused, not used as a hash index */
    int rc = vnacal_new_add_single_reflect_m(vnp, m, 1, 1, -5, 1);
    printf("rc=%d\n", rc);
    vnacal_new_free(vnp);
    vnacal_free(vcp);
    return rc == -1 ? 0 : 1;
}

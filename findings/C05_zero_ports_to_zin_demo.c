#include <stdio.h>
#include <vnadata.h>
int main(void)
{
    vnadata_t *in = vnadata_alloc_and_init(NULL, NULL, VPT_S, 0, 0, 1);
    vnadata_t *out = vnadata_alloc(NULL, NULL);
    int rc;
    if (in == NULL || out == NULL) return 2;
    rc = vnadata_convert(in, out, VPT_ZIN);
    printf("convert rc=%d out %dx%d\n", rc, vnadata_get_rows(out), vnadata_get_columns(out));
    rc = vnadata_convert(in, in, VPT_ZIN);
    printf("in-place rc=%d %dx%d\n", rc, vnadata_get_rows(in), vnadata_get_columns(in));
    vnadata_free(in); vnadata_free(out);
    return 0;
}

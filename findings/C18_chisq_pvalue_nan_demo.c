/*
 * chisq_pvalue (src/vnacal_new_solve_pvalue.c) computed exp(-x) * sum x^i/i!
 * with the two factors separately: for x > 745 the first underflows to 0 and
 * for enough degrees of freedom the second overflows, 0 * inf = NaN.  The
 * caller tests "pvalue < limit", which is false for NaN: grossly inconsistent
 * data were ACCEPTED (a 1000-sigma outlier passes where a 10-sigma one is
 * rejected), and for very large consistent systems the value was NaN or 0
 * instead of about 1.
 *
 * cc -g -DHAVE_CONFIG_H -I src -I . findings/C18_chisq_pvalue_nan_demo.c src/.libs/libvna.a -lyaml -lm -o demo && ./demo
 * exit 1: defect present; exit 0: not present.  (The static function is
 * reached by including the translation unit; nothing else of it is called.)
 */
#include <math.h>
#include <stdio.h>
#include "vnacal_new_solve_pvalue.c"

int main(void)
{
    int bad = 0;
    struct { int df; double x2, lo, hi; } t[] = {
	{ 2,    2.0,     0.36787944117144, 0.36787944117145 },	/* exp(-1) */
	{ 4,    2.0,     0.73575888234288, 0.73575888234289 },	/* 2 exp(-1) */
	{ 1,    1.0,     0.31731050786291, 0.31731050786292 },	/* erfc(sqrt(1/2)) */
	{ 3,    3.0,     0.39162517627108, 0.39162517627109 },
	{ 160,  1.0e4,   0.0, 1.0e-300 },
	{ 160,  1.0e10,  0.0, 1.0e-300 },	/* one standard off by thousands of sigma: was NaN, i.e. accepted */
	{ 161,  1.0e10,  0.0, 1.0e-300 },	/* was NaN */
	{ 4000, 3800.0,  0.98, 1.0 },		/* large consistent system: was NaN */
	{ 4001, 3800.0,  0.98, 1.0 },
	{ 4000, 4000.0,  0.49, 0.51 },
	{ 10,   2000.0,  0.0, 1.0e-300 },
    };

    for (unsigned i = 0; i < sizeof(t) / sizeof(t[0]); ++i) {
	double p = chisq_pvalue(t[i].df, t[i].x2);

	if (!(p >= t[i].lo && p <= t[i].hi)) {
	    printf("chisq_pvalue(%d, %g) = %.15g, expected in [%.15g, %.15g]\n", t[i].df, t[i].x2, p, t[i].lo, t[i].hi);
	    bad = 1;
	}
    }
    puts(bad ? "DEFECT" : "ok");
    return bad;
}
